package c17

import (
	"bytes"
	"context"
	"errors"
	"fmt"
	"hash/crc32"
	"io"
	"math/rand"
	"os"
	"path"
	"sort"
	"strings"
	"sync"
	"testing"
	"time"

	"github.com/oneconcern/datamon/pkg/core"
	dfuse "github.com/oneconcern/datamon/pkg/fuse"

	"verifharness/cafsh"
	"verifharness/coreh"
	"verifharness/drv"
	"verifharness/fuseh"
	"verifharness/gen"
	"verifharness/memstore"
	"verifharness/sparsestore"
)

// C17 — a read-only mount shows exactly the bundle.
//
// The fuseutil.FileSystem of a read-only mount (streamed or pre-downloaded) is driven directly with
// hand-built fuseops structures (no kernel mount is possible in the sandbox). Reference: the tree built
// from the bundle's entries (files and the directories they imply) with the uploaded bytes.

type fileSpec struct {
	Path string `json:"path"`
	Len  int    `json:"len"`
}

type params struct {
	Files    []fileSpec `json:"files"`
	Leaf     uint32     `json:"leaf"`
	Streamed bool       `json:"streamed"`
	Cache    int        `json:"cache_bytes"`
	Prefetch int        `json:"prefetch"`
	Via      string     `json:"via"` // upload | mutable-commit (entry names then carry a leading slash)
	Ops      int        `json:"ops"`
	Seed     int64      `json:"seed"`
	// BodyFaults: the first transfer of every leaf blob is cut mid-body with this error text (streamed mounts; hash
	// verification off, which is the mount's default, or on). "" = no faults.
	BodyFault string `json:"body_fault,omitempty"`
	NoVerify  bool   `json:"hash_verification_off,omitempty"`
	// HugeLeaves > 0: the bundle holds one file of that many 2 MiB leaves plus HugeTail bytes (4 GiB and more), stored
	// in a sparse store; it is mounted pre-downloaded and streamed and read around leaf boundaries
	// StaleStaging: the staging directory of a pre-downloaded mount already holds files at some of the bundle's paths
	// (left by the mount of an earlier version): same length with other bytes, or another length. The mount may be
	// refused; if it is accepted it must serve the bundle's bytes.
	StaleStaging bool `json:"staging_area_used_before,omitempty"`
	HugeLeaves   int  `json:"huge_file_leaves,omitempty"`
	HugeTail     int  `json:"huge_file_tail_bytes,omitempty"`
}

var parts = []string{"a", "b", "data", "file with space", "ünï-cødé", "x.y.z", ".dot", "UPPER", "日本", "a-b", "a_b", "0", "long-name-to-make-the-dirent-longer-than-usual"}

func genTree(r *rand.Rand, n, leaf int, tiny bool) []fileSpec {
	ndirs := 1 + r.Intn(8)
	if n == 0 {
		return nil
	}
	dirs := []string{""}
	for i := 0; i < ndirs; i++ {
		parent := dirs[r.Intn(len(dirs))]
		if strings.Count(parent, "/") >= 5 {
			parent = ""
		}
		d := fmt.Sprintf("d%d-%s", i, parts[r.Intn(len(parts))])
		if parent != "" {
			d = parent + "/" + d
		}
		dirs = append(dirs, d)
	}
	big := dirs[r.Intn(len(dirs))] // one directory receives most files
	var fs []fileSpec
	for i := 0; i < n; i++ {
		d := dirs[r.Intn(len(dirs))]
		if r.Intn(3) > 0 {
			d = big
		}
		name := fmt.Sprintf("f%d-%s", i, parts[r.Intn(len(parts))])
		if d != "" {
			name = d + "/" + name
		}
		var l int
		switch {
		case tiny:
			l = r.Intn(20)
		default:
			l = []int{0, 1, leaf - 1, leaf, leaf + 1, 2*leaf + 17, 5 * leaf, r.Intn(3*leaf + 1), r.Intn(200)}[r.Intn(9)]
		}
		fs = append(fs, fileSpec{Path: name, Len: l})
	}
	return fs
}

func gen17(seed int64, tier string) []drv.Case {
	r := gen.Rand(seed, "c17")
	var cs []drv.Case
	n := 30
	if tier == "thorough" {
		n = 800
	}
	counts := []int{0, 1, 2, 5, 12, 40, 130, 400}
	for i := 0; i < n; i++ {
		nf := counts[i%len(counts)]
		if i%len(counts) >= 3 {
			nf = nf/2 + r.Intn(nf/2+1)
		}
		leaf := []int{4096, 4096, 65536, 64}[r.Intn(4)]
		p := params{Leaf: uint32(leaf), Seed: r.Int63(), Ops: 200 + r.Intn(400)}
		p.Files = genTree(r, nf, leaf, nf > 60)
		p.Streamed = i%3 != 2
		if p.Streamed {
			p.Cache = []int{leaf, 2 * leaf, 50 << 20}[r.Intn(3)]
			p.Prefetch = []int{0, 0, 2}[r.Intn(3)]
		}
		if i%5 == 3 {
			// deep chains: single entries that imply 8..40 directory levels nobody has seen before, and siblings deep inside
			for k := 0; k < 1+r.Intn(3); k++ {
				depth := []int{7, 8, 9, 12, 16, 17, 24, 40}[r.Intn(8)]
				var comps []string
				for d := 0; d < depth; d++ {
					comps = append(comps, fmt.Sprintf("%c%d", 'a'+rune(k), d))
				}
				dir := strings.Join(comps, "/")
				p.Files = append(p.Files, fileSpec{Path: dir + "/leaf-file", Len: r.Intn(300)})
				if r.Intn(2) == 0 {
					p.Files = append(p.Files, fileSpec{Path: strings.Join(comps[:depth/2], "/") + "/half-way", Len: r.Intn(50)})
				}
			}
			r.Shuffle(len(p.Files), func(a, b int) { p.Files[a], p.Files[b] = p.Files[b], p.Files[a] })
		}
		p.Via = "upload"
		if i%7 == 5 && nf > 0 && nf < 60 {
			p.Via = "mutable-commit"
		}
		if i%10 == 8 {
			p.Streamed, p.Ops = false, 20000 // many reads on one pre-downloaded mount (descriptor use is recorded)
			if tier == "thorough" {
				p.Ops = 60000
			}
		}
		if i%6 == 4 && nf > 0 {
			p.Streamed, p.Via = true, "upload"
			p.Cache = []int{leaf, 50 << 20}[r.Intn(2)]
			p.BodyFault = []string{"unexpected EOF", "connection reset by peer", "stream error: stream ID 7; INTERNAL_ERROR; received from peer"}[r.Intn(3)]
			p.NoVerify = r.Intn(3) > 0
		}
		if !p.Streamed && p.BodyFault == "" && p.Via == "upload" && nf > 0 && i%2 == 0 {
			p.StaleStaging = true
		}
		cls := "streamed"
		if !p.Streamed {
			cls = "pre-downloaded"
		}
		if p.StaleStaging {
			cls += "+used-staging"
		}
		if p.BodyFault != "" {
			cls += "+transfer-faults"
		}
		if p.Via != "upload" {
			cls += "+committed-from-mutable-mount"
		}
		if nf == 0 {
			cls += "+empty-bundle"
		}
		if i%5 == 3 {
			cls += "+deep-chains"
		}
		cs = append(cs, drv.Case{ID: fmt.Sprintf("%s-%d", cls, i), Class: cls, Params: drv.MustJSON(p)})
	}
	// files of 4 GiB and more (offsets beyond 32 bits): one case on the quick tier (about a minute, 4 GiB of scratch disk)
	nh := 1
	if tier == "thorough" {
		nh = 3
	}
	for i := 0; i < nh; i++ {
		cs = append(cs, drv.Case{ID: fmt.Sprintf("huge-file-%d", i), Class: "file>=4GiB", Params: drv.MustJSON(params{
			Leaf: 2 << 20, HugeLeaves: 2048 + []int{3, 1, 40}[i], HugeTail: []int{777, 0, 1}[i], Seed: r.Int63(), NoVerify: i == 1})})
	}
	return cs
}

func runHuge17(p params, res *drv.Result) {
	env := coreh.NewEnv(memstore.Config{})
	blob := sparsestore.New("blob")
	env.BlobOverride = blob
	must := func(err error) {
		if err != nil {
			panic(fmt.Sprintf("set-up failed: %v", err))
		}
	}
	must(env.CreateRepo(nil, "r"))
	const L = int64(2 << 20)
	size := int64(p.HugeLeaves)*L + int64(p.HugeTail)
	g := sparsestore.MarkedLeaves(p.Seed, L)
	src := sparsestore.New("src")
	src.AddVirtual("big/huge.bin", size, g)
	src.AddVirtual("big/small.txt", 5000, sparsestore.MarkedLeaves(p.Seed+1, 1000))
	id, err := env.Upload(nil, "r", src, coreh.UploadOpts{Leaf: uint32(L), Concurrency: 2})
	if err != nil {
		res.Violate("upload-failed", "file>=4GiB", "upload of a %d byte file failed: %v", size, err)
		return
	}
	res.Stat("huge_bytes_uploaded", blob.BytesPut)
	_, entries, err := env.Entries(nil, "r", id)
	must(err)
	for _, e := range entries {
		if e.NameWithPath == "big/huge.bin" && int64(e.Size) != size {
			res.Violate("entry-size", "file>=4GiB", "bundle entry of the %d byte file says %d bytes", size, e.Size)
			return
		}
	}
	scratch, err := os.MkdirTemp(os.Getenv("VERIF_SCRATCH"), "c17-huge-")
	must(err)
	defer os.RemoveAll(scratch)
	r := rand.New(rand.NewSource(p.Seed))
	for _, streamed := range []bool{false, true} {
		mode := map[bool]string{false: "pre-downloaded", true: "streamed"}[streamed]
		dest := fmt.Sprintf("%s/staging-%v", scratch, streamed)
		must(os.MkdirAll(dest, 0o755))
		b := env.ReadBundle(nil, "r", id, coreh.LocalFS(dest), 2)
		opts := []dfuse.Option{dfuse.Logger(coreh.Nop), dfuse.Streaming(streamed), dfuse.VerifyHash(!p.NoVerify)}
		if streamed {
			opts = append(opts, dfuse.CacheSize(64<<20), dfuse.Prefetch(0))
		}
		rofs, err := dfuse.NewReadOnlyFS(b, opts...)
		if err != nil {
			res.Violate("mount-failed", "file>=4GiB|"+mode, "NewReadOnlyFS over a bundle with a %d byte file: %v", size, err)
			return
		}
		fs := fuseh.FS{F: rofs.VerifFS()}
		d, err := fs.Lookup(1, "big")
		if err != nil {
			res.Violate("lookup-failed", "file>=4GiB|"+mode, "Lookup(/big): %v", err)
			return
		}
		f, err := fs.Lookup(uint64(d.Child), "huge.bin")
		if err != nil {
			res.Violate("lookup-failed", "file>=4GiB|"+mode, "Lookup(/big/huge.bin): %v", err)
			return
		}
		if int64(f.Attributes.Size) != size {
			res.Violate("wrong-size", "file>=4GiB|"+mode, "%s mount: /big/huge.bin has size %d, the file has %d bytes", mode, f.Attributes.Size, size)
			return
		}
		leaves := []int64{0, 1, 2, 1023, 1024, 2046, 2047, 2048, 2049, int64(p.HugeLeaves) - 1, int64(p.HugeLeaves)}
		for i := 0; i < 24; i++ {
			leaves = append(leaves, r.Int63n(int64(p.HugeLeaves)+1))
		}
		for _, li := range leaves {
			for _, q := range []struct {
				off int64
				n   int
			}{{li*L - 40, 100}, {li * L, 16}, {li*L + 7, 4096}, {li*L - 1, 2}} {
				if q.off < 0 || q.off >= size {
					continue
				}
				want := make([]byte, q.n)
				if int64(q.n) > size-q.off {
					want = want[:size-q.off]
				}
				g(q.off, want)
				got, err := fs.ReadFile(uint64(f.Child), q.off, q.n)
				res.Stat("huge_file_reads", 1)
				if err != nil && !(errors.Is(err, io.EOF) && len(got) == len(want)) {
					res.Violate("read-failed", "file>=4GiB|"+mode, "%s mount: ReadFile(/big/huge.bin, off=%d, n=%d) failed: %v", mode, q.off, q.n, err)
					return
				}
				if !bytes.Equal(got, want) {
					res.Violate("read-mismatch", "file>=4GiB|"+mode, "%s mount: ReadFile(/big/huge.bin, off=%d (leaf %d%+d), n=%d) returned %d bytes %x…, the file holds %d bytes %x… there (size %d)",
						mode, q.off, q.off/L, q.off%L, q.n, len(got), head(got), len(want), head(want), size)
					return
				}
			}
		}
		// past the end
		if got, err := fs.ReadFile(uint64(f.Child), size, 10); len(got) != 0 || (err != nil && !errors.Is(err, io.EOF)) {
			res.Violate("read-past-end", "file>=4GiB|"+mode, "%s mount: ReadFile at the end of the file returned %d bytes, err %v", mode, len(got), err)
			return
		}
		os.RemoveAll(dest)
		res.Stat("huge_file_mounts", 1)
		res.Seen("huge_mount_mode", mode)
	}
	res.Nontrivial = true
	res.Canon = fmt.Sprintf("huge %d+%d verify=%v", p.HugeLeaves, p.HugeTail, !p.NoVerify)
	res.Sample = map[string]interface{}{"file_bytes": size, "leaves": p.HugeLeaves, "blob_bytes_sent": blob.BytesPut, "blob_bytes_kept_by_sparse_store": blob.BytesKept}
}

func head(b []byte) []byte {
	if len(b) > 20 {
		return b[:20]
	}
	return b
}

type rnode struct {
	name     string
	isDir    bool
	content  []byte
	children map[string]*rnode
	inode    uint64 // as reported by the mount (first seen)
}

func run17(c drv.Case, res *drv.Result) {
	var p params
	drv.Params(c, &p)
	cafsh.InstallWriteProgressMonitor()
	res.Canon = string(c.Params)
	if p.HugeLeaves > 0 {
		runHuge17(p, res)
		return
	}
	r := rand.New(rand.NewSource(p.Seed))
	env := coreh.NewEnv(memstore.Config{ChunkedReader: []int{0, 0, 100, 4096}[p.Seed%4], EOFWithData: (p.Seed/4)%2 == 1})
	must := func(err error) {
		if err != nil {
			panic(fmt.Sprintf("set-up failed: %v", err))
		}
	}
	must(env.CreateRepo(nil, "r"))
	tree := coreh.Tree{}
	for _, f := range p.Files {
		tree[f.Path] = gen.Bytes(p.Seed, f.Path, f.Len)
	}
	scratch, err := os.MkdirTemp(os.Getenv("VERIF_SCRATCH"), "c17-")
	must(err)
	defer os.RemoveAll(scratch)
	var id string
	if p.Via == "mutable-commit" {
		id = commitThroughMutableMount(env, scratch, tree, p.Leaf)
	} else {
		id, err = env.Upload(nil, "r", env.MemConsumable("src", tree).For(nil), coreh.UploadOpts{Leaf: p.Leaf, Concurrency: 4})
		must(err)
	}
	_, entries, err := env.Entries(nil, "r", id)
	must(err)

	// reference tree from the bundle's entries
	root := &rnode{isDir: true, children: map[string]*rnode{}}
	nfiles, ndirs := 0, 1
	for _, e := range entries {
		pth := strings.TrimPrefix(e.NameWithPath, "/")
		content, ok := tree[pth]
		if !ok {
			res.Violate("entry-not-uploaded", "setup", "bundle entry %q was not uploaded", e.NameWithPath)
			return
		}
		cur := root
		comps := strings.Split(pth, "/")
		for i, comp := range comps {
			nx := cur.children[comp]
			if nx == nil {
				nx = &rnode{name: comp, isDir: i < len(comps)-1, children: map[string]*rnode{}}
				cur.children[comp] = nx
				if nx.isDir {
					ndirs++
				} else {
					nfiles++
				}
			}
			cur = nx
		}
		cur.content = content
	}
	if nfiles != len(tree) {
		res.Violate("entries-do-not-match-upload", "setup", "%d entries for %d uploaded files", nfiles, len(tree))
		return
	}

	dest := scratch + "/mount-staging"
	must(os.MkdirAll(dest, 0o755))
	var mountActor *memstore.Actor
	faulted := map[string]bool{}
	var fmu sync.Mutex
	faultsLeft := func() bool { return false }
	if p.BodyFault != "" {
		mountActor = memstore.NewActor("mount")
		ferr := errors.New(p.BodyFault)
		if p.BodyFault == "unexpected EOF" {
			ferr = io.ErrUnexpectedEOF
		}
		nblobs := len(env.Blob.RawKeys())
		mountActor.SetReadFault(func(c memstore.Call, size int) (int, error) {
			if c.Store != "blob" || size < 2 {
				return 0, nil
			}
			fmu.Lock()
			defer fmu.Unlock()
			if faulted[c.Key] {
				return 0, nil
			}
			faulted[c.Key] = true
			return 1 + int(crc32.ChecksumIEEE([]byte(c.Key)))%(size-1), ferr
		})
		faultsLeft = func() bool { fmu.Lock(); defer fmu.Unlock(); return len(faulted) < nblobs }
		_ = faultsLeft
	}
	if p.StaleStaging {
		stale := coreh.Tree{}
		for i, f := range p.Files {
			switch i % 3 {
			case 0:
				stale[f.Path] = gen.Bytes(p.Seed+1, "stale-"+f.Path, f.Len) // same length, other bytes (same bytes when empty)
			case 1:
				if p.Seed%2 == 0 {
					continue // this staging area only holds files of the same length as the bundle's
				}
				stale[f.Path] = gen.Bytes(p.Seed+1, "stale-"+f.Path, f.Len+1+i%5)
			}
		}
		must(coreh.WriteDir(dest, stale))
		res.Stat("stale_files_in_staging", int64(len(stale)))
	}
	b := env.ReadBundle(mountActor, "r", id, coreh.LocalFS(dest), 4)
	opts := []dfuse.Option{dfuse.Logger(coreh.Nop), dfuse.Streaming(p.Streamed), dfuse.VerifyHash(!p.NoVerify)}
	if p.Streamed {
		opts = append(opts, dfuse.CacheSize(p.Cache), dfuse.Prefetch(p.Prefetch))
	}
	rofs, err := dfuse.NewReadOnlyFS(b, opts...)
	if err != nil && p.StaleStaging {
		// refusing to mount over a used staging area is not a wrong answer
		res.Stat("mounts_refused_on_used_staging", 1)
		res.Nontrivial = true
		return
	}
	if err != nil {
		res.Violate("mount-failed", cls(p), "NewReadOnlyFS: %v", err)
		return
	}
	fs := fuseh.FS{F: rofs.VerifFS()}
	res.Nontrivial = true
	res.Stat("mounts", 1)
	res.Stat("files", int64(nfiles))
	res.Stat("dirs", int64(ndirs))

	// ---- 1. full walk: listings, lookups, attributes
	const rootInode = 1
	root.inode = rootInode
	seenInodes := map[uint64]string{rootInode: "/"}
	type qe struct {
		n   *rnode
		pth string
	}
	var dirs, files []qe
	queue := []qe{{root, ""}}
	for len(queue) > 0 {
		q := queue[0]
		queue = queue[1:]
		dirs = append(dirs, q)
		ds, _, err := fs.ReadDirAll(q.n.inode, 1<<20, 10)
		if err != nil {
			res.Violate("readdir-failed", cls(p)+"|"+emptyTag(q.n), "ReadDir of %q (inode %d, %d children expected) failed: %v", "/"+q.pth, q.n.inode, len(q.n.children), err)
			return
		}
		res.Stat("listings", 1)
		got := map[string]fuseh.Dirent{}
		for _, d := range ds {
			if d.Name == "." || d.Name == ".." {
				continue
			}
			if _, dup := got[d.Name]; dup {
				res.Violate("readdir-duplicate", cls(p), "ReadDir of %q lists %q twice", "/"+q.pth, d.Name)
				return
			}
			got[d.Name] = d
		}
		for name, ch := range q.n.children {
			d, ok := got[name]
			if !ok {
				res.Violate("readdir-missing-child", cls(p), "ReadDir of %q (%d children) lacks %q", "/"+q.pth, len(q.n.children), name)
				return
			}
			if d.IsDir != ch.isDir {
				res.Violate("readdir-wrong-type", cls(p), "ReadDir of %q reports %q as dir=%v", "/"+q.pth, name, d.IsDir)
				return
			}
			ch.inode = d.Inode
			cp := strings.TrimPrefix(q.pth+"/"+name, "/")
			if prev, dup := seenInodes[d.Inode]; dup {
				res.Violate("inode-shared", cls(p), "inode %d is given to both %q and %q", d.Inode, prev, "/"+cp)
				return
			}
			seenInodes[d.Inode] = "/" + cp
			if ch.isDir {
				queue = append(queue, qe{ch, cp})
			} else {
				files = append(files, qe{ch, cp})
			}
		}
		for name := range got {
			if q.n.children[name] == nil {
				res.Violate("readdir-extra-child", cls(p), "ReadDir of %q lists %q which is not in the bundle", "/"+q.pth, name)
				return
			}
		}
	}
	checkNode := func(parent *rnode, ch *rnode, where string) bool {
		e, err := fs.Lookup(parent.inode, ch.name)
		if err != nil {
			res.Violate("lookup-failed", cls(p), "LookUpInode(%d, %q) [%s] failed: %v", parent.inode, ch.name, where, err)
			return false
		}
		res.Stat("lookups", 1)
		if uint64(e.Child) != ch.inode {
			res.Violate("lookup-inode-differs", cls(p), "LookUpInode(%d, %q) = inode %d, ReadDir said %d", parent.inode, ch.name, e.Child, ch.inode)
			return false
		}
		for pass, a := range []struct {
			isDir bool
			size  uint64
		}{{e.Attributes.Mode.IsDir(), e.Attributes.Size}} {
			_ = pass
			if a.isDir != ch.isDir {
				res.Violate("lookup-wrong-type", cls(p), "%s: dir=%v expected %v", where, a.isDir, ch.isDir)
				return false
			}
			if !ch.isDir && a.size != uint64(len(ch.content)) {
				res.Violate("lookup-wrong-size", cls(p), "%s: size %d, file has %d bytes", where, a.size, len(ch.content))
				return false
			}
		}
		at, err := fs.GetAttr(ch.inode)
		if err != nil {
			res.Violate("getattr-failed", cls(p), "GetInodeAttributes(%d) [%s] failed: %v", ch.inode, where, err)
			return false
		}
		if at.Mode.IsDir() != ch.isDir || (!ch.isDir && at.Size != uint64(len(ch.content))) {
			res.Violate("getattr-disagrees", cls(p), "%s: attributes dir=%v size=%d, expected dir=%v size=%d", where, at.Mode.IsDir(), at.Size, ch.isDir, len(ch.content))
			return false
		}
		return true
	}
	for _, d := range dirs {
		for _, ch := range d.n.children {
			if !checkNode(d.n, ch, "/"+strings.TrimPrefix(d.pth+"/"+ch.name, "/")) {
				return
			}
		}
		// absent names
		absent := []string{"nope", "f", "d", ".hidden", "f0", "zz-" + fmt.Sprint(r.Intn(1000))}
		for name := range d.n.children {
			absent = append(absent, name+"x", name[:len(name)-1], strings.ToUpper(name)+"_")
			break
		}
		if d.pth != "" {
			absent = append(absent, path.Base(d.pth))
		}
		for _, name := range absent {
			if name == "" || d.n.children[name] != nil {
				continue
			}
			_, err := fs.Lookup(d.n.inode, name)
			res.Stat("absent_lookups", 1)
			if fuseh.Errno(err) != "ENOENT" {
				res.Violate("absent-name-found", cls(p), "LookUpInode(%q, %q) of a name that is not in the bundle: %q", "/"+d.pth, name, fuseh.Errno(err))
				return
			}
		}
	}

	// ---- 2. listings resumed at every offset, small buffers
	sort.Slice(dirs, func(i, j int) bool { return len(dirs[i].n.children) > len(dirs[j].n.children) })
	for di, d := range dirs {
		if di >= 6 {
			break
		}
		full, _, err := fs.ReadDirAll(d.n.inode, 1<<20, 10)
		if err != nil {
			res.Violate("readdir-failed", cls(p), "ReadDir of %q failed: %v", "/"+d.pth, err)
			return
		}
		maxEnt := 24
		for _, e := range full {
			if l := 24 + (len(e.Name)+7)/8*8; l > maxEnt {
				maxEnt = l
			}
		}
		for _, bs := range []int{maxEnt, maxEnt + 8, 100 + maxEnt, 256 + maxEnt, 4096} {
			got, calls, err := fs.ReadDirAll(d.n.inode, bs, len(full)+5)
			if err != nil {
				res.Violate("readdir-resume-failed", cls(p), "listing %q (%d entries) with a %d byte buffer: %v", "/"+d.pth, len(full), bs, err)
				return
			}
			res.Stat("resumed_listings", 1)
			res.Stat("readdir_calls", int64(calls))
			if msg := sameSeq(full, got); msg != "" {
				res.Violate("readdir-resume-differs", cls(p), "listing %q (%d entries) in %d calls with a %d byte buffer: %s", "/"+d.pth, len(full), calls, bs, msg)
				return
			}
		}
		idx := r.Perm(len(full))
		if len(idx) > 25 {
			idx = idx[:25]
		}
		for _, k := range idx {
			got, err := fs.ReadDirOnce(d.n.inode, full[k].Offset, 1<<20)
			if err != nil {
				res.Violate("readdir-resume-failed", cls(p), "listing %q from offset %d: %v", "/"+d.pth, full[k].Offset, err)
				return
			}
			res.Stat("listings_from_offset", 1)
			if msg := sameSeq(full[k+1:], got); msg != "" {
				res.Violate("readdir-from-offset-differs", cls(p), "listing %q (%d entries) from the offset of entry %d: %s", "/"+d.pth, len(full), k, msg)
				return
			}
		}
	}

	// ---- 3. reads
	peakFDs := countFDs()
	for i := 0; i < p.Ops && len(files) > 0; i++ {
		f := files[r.Intn(len(files))]
		size := len(f.n.content)
		leaf := int(p.Leaf)
		var off, n int
		switch r.Intn(8) {
		case 0:
			off, n = 0, size+r.Intn(10)
		case 1:
			off, n = r.Intn(size+1), r.Intn(2*leaf+2)
		case 2: // crossing a leaf boundary
			k := 1 + r.Intn(5)
			off, n = k*leaf-1-r.Intn(3), 2+r.Intn(leaf+3)
		case 3: // up to EOF exactly / beyond
			off = r.Intn(size + 1)
			n = size - off + r.Intn(3)
		case 4: // at or after EOF
			off, n = size+r.Intn(3), 1+r.Intn(100)
		case 5:
			off, n = r.Intn(size+1), 0
		case 6:
			off, n = r.Intn(size+1), 4096
		default:
			off, n = r.Intn(size+leaf), 1+r.Intn(3*leaf)
		}
		if off < 0 {
			off = 0
		}
		want := []byte{}
		if off < size {
			end := off + n
			if end > size {
				end = size
			}
			want = f.n.content[off:end]
		}
		got, err := fs.ReadFile(f.n.inode, int64(off), n)
		res.Stat("reads", 1)
		if i%256 == 255 {
			if n := countFDs(); n > peakFDs {
				peakFDs = n
			}
		}
		kind := "inside"
		switch {
		case off >= size:
			kind = "at-or-after-eof"
		case off+n > size:
			kind = "crossing-eof"
		}
		if err != nil && p.BodyFault != "" && mountActor.FaultsInjected() > 0 {
			res.Stat("reads_refused_under_transfer_fault", 1) // an error is a correct answer to a cut transfer
			continue
		}
		if err != nil {
			res.Violate("read-failed", cls(p)+"|"+kind, "ReadFile(%q [%d bytes], off=%d, len=%d) failed: %v (%d bytes)", "/"+f.pth, size, off, n, err, len(got))
			return
		}
		if !bytes.Equal(got, want) {
			res.Violate("read-wrong-bytes", cls(p)+"|"+kind, "ReadFile(%q [%d bytes], off=%d, len=%d) returned %d bytes, expected %d (first difference at %d)", "/"+f.pth, size, off, n, len(got), len(want), firstDiff(got, want))
			return
		}
		res.Seen("read_kinds", kind)
	}
	if p.BodyFault != "" {
		// the faults are transient (one per blob): read everything twice; the first pass may fail, never lie; once no
		// transfer is cut any more every read must be exact
		mountActor.SetReadFault(nil)
		for pass := 0; pass < 2; pass++ {
			for _, f := range files {
				got, err := fs.ReadFile(f.n.inode, 0, len(f.n.content)+1)
				if err != nil && pass == 0 {
					continue
				}
				if err != nil {
					res.Violate("read-failed", cls(p)+"|after-transfer-faults-ended", "ReadFile(%q) still fails after the transfer faults ended: %v", "/"+f.pth, err)
					return
				}
				if !bytes.Equal(got, f.n.content) {
					res.Violate("read-wrong-bytes", cls(p)+"|after-transfer-fault|verify="+fmt.Sprint(!p.NoVerify), "ReadFile(%q [%d bytes]) returns %d bytes that differ from the file (first difference at %d) after an earlier transfer of one of its blobs was cut (%s)", "/"+f.pth, len(f.n.content), len(got), firstDiff(got, f.n.content), p.BodyFault)
					return
				}
			}
		}
		res.Stat("transfer_faults_injected", int64(mountActor.FaultsInjected()))
	}
	// every file once, sequentially, the way cat does (128 KiB requests)
	for i, f := range files {
		if i >= 60 {
			break
		}
		var all []byte
		for off := 0; ; off += 131072 {
			got, err := fs.ReadFile(f.n.inode, int64(off), 131072)
			if err != nil {
				res.Violate("read-failed", cls(p)+"|sequential", "sequential read of %q at %d failed: %v", "/"+f.pth, off, err)
				return
			}
			all = append(all, got...)
			if len(got) < 131072 {
				break
			}
		}
		if !bytes.Equal(all, f.n.content) {
			res.Violate("read-wrong-bytes", cls(p)+"|sequential", "sequential read of %q returned %d bytes, expected %d", "/"+f.pth, len(all), len(f.n.content))
			return
		}
		res.Stat("files_read_whole", 1)
	}
	res.Seen("peak_open_fds_bucket", fmt.Sprintf("%s:<=%d", cls(p), (peakFDs/250+1)*250))
	res.Sample = map[string]interface{}{"files": nfiles, "dirs": ndirs, "leaf": p.Leaf, "streamed": p.Streamed, "cache": p.Cache, "prefetch": p.Prefetch, "via": p.Via,
		"largest_dir": len(dirs[0].n.children), "some_paths": firstPaths(p.Files, 4)}
}

func firstPaths(fs []fileSpec, n int) []string {
	var out []string
	for i, f := range fs {
		if i >= n {
			break
		}
		out = append(out, fmt.Sprintf("%s (%d bytes)", f.Path, f.Len))
	}
	return out
}

func countFDs() int {
	es, err := os.ReadDir("/proc/self/fd")
	if err != nil {
		return -1
	}
	return len(es)
}

func cls(p params) string {
	if p.Streamed {
		return "streamed"
	}
	if p.StaleStaging {
		return "pre-downloaded|used-staging"
	}
	return "pre-downloaded"
}

func emptyTag(n *rnode) string {
	if len(n.children) == 0 {
		return "empty-directory"
	}
	return "non-empty-directory"
}

func sameSeq(want, got []fuseh.Dirent) string {
	if len(want) != len(got) {
		names := map[string]int{}
		for _, g := range got {
			names[g.Name]++
		}
		for n, c := range names {
			if c > 1 {
				return fmt.Sprintf("%d entries instead of %d; %q appears %d times", len(got), len(want), n, c)
			}
		}
		return fmt.Sprintf("%d entries instead of %d", len(got), len(want))
	}
	for i := range want {
		if want[i].Name != got[i].Name || want[i].Inode != got[i].Inode {
			return fmt.Sprintf("entry %d is %q (inode %d), expected %q (inode %d)", i, got[i].Name, got[i].Inode, want[i].Name, want[i].Inode)
		}
	}
	return ""
}

func firstDiff(a, b []byte) int {
	for i := 0; i < len(a) && i < len(b); i++ {
		if a[i] != b[i] {
			return i
		}
	}
	if len(a) < len(b) {
		return len(a)
	}
	return len(b)
}

// commitThroughMutableMount creates the bundle by writing the tree into a mutable mount and committing it (the
// entries of such a bundle carry names with a leading slash).
func commitThroughMutableMount(env *coreh.Env, scratch string, tree coreh.Tree, leaf uint32) string {
	id, err := fuseh.CommitTree(env, scratch+"/mutable-staging", "r", tree, leaf)
	if err != nil {
		panic(fmt.Sprintf("set-up failed (mutable commit): %v", err))
	}
	return id
}

var _ = context.Background
var _ = core.Publish

func TestC17(t *testing.T) {
	fuseh.LimitOpenFiles(1024)
	drv.Main(t, drv.Driver{ID: "C17", Gen: gen17, Run: run17, CaseTimeout: 30 * time.Minute})
}
