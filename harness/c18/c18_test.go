package c18

import (
	"bytes"
	"fmt"
	"math/rand"
	"os"
	"sort"
	"strings"
	"testing"
	"time"

	"verifharness/cafsh"
	"verifharness/coreh"
	"verifharness/drv"
	"verifharness/fuseh"
	"verifharness/gen"
	"verifharness/memstore"
)

// C18 — a mutable mount behaves like a file system and commits what it shows.
//
// A kernel-admissible program of file system operations is generated step by step from a PRNG and the
// current state, executed against the mutable mount's fuseutil.FileSystem (hand-built fuseops requests)
// and against a POSIX reference tree. The generator keeps the kernel's books: a lookup count per inode
// (incremented by every successful LookUpInode / CreateFile / MkDir reply, decremented by ForgetInode(n)
// with n <= count), only uses inodes the kernel knows (re-looking paths up from the root when needed),
// never touches an unlinked inode except to forget it. After every step the mount's structures are
// snapshotted under its own lock and compared with the reference.

type params struct {
	Steps   int    `json:"steps"`
	Leaf    uint32 `json:"leaf"`
	Profile string `json:"profile"` // mixed | churn (many create/remove/forget: inode reuse) | deep | files
	Seed    int64  `json:"seed"`
}

func gen18(seed int64, tier string) []drv.Case {
	r := gen.Rand(seed, "c18")
	n := 300
	if tier == "thorough" {
		n = 80000
	}
	var cs []drv.Case
	profiles := []string{"mixed", "churn", "deep", "files", "mixed", "churn"}
	for i := 0; i < n; i++ {
		p := params{Steps: 20 + r.Intn(41), Leaf: uint32([]int{64, 4096}[r.Intn(2)]), Profile: profiles[i%len(profiles)], Seed: r.Int63()}
		if i%25 == 24 {
			p.Steps = 150 + r.Intn(150)
		}
		if i%150 == 149 {
			p.Steps, p.Profile = 12000, "files" // a long-lived mount: many reads and writes on few files
		}
		cs = append(cs, drv.Case{ID: fmt.Sprintf("%s-%d", p.Profile, i), Class: p.Profile, Params: drv.MustJSON(p)})
	}
	return cs
}

type node struct {
	id       int
	isDir    bool
	content  []byte
	children map[string]*node
	parent   *node
	name     string
	inode    uint64
	linked   bool
	known    int // kernel lookup count
}

type world struct {
	p      params
	r      *rand.Rand
	m      *fuseh.Mutable
	root   *node
	nodes  []*node // every node ever created
	res    *drv.Result
	trace  []string
	nextID int
	failed bool
}

var names = []string{"a", "b", "c", "d", "e"}

func (w *world) logf(format string, a ...interface{}) {
	w.trace = append(w.trace, fmt.Sprintf(format, a...))
}

func (w *world) violate(kind, sig, format string, a ...interface{}) {
	w.res.Violate(kind, sig, "step %d: %s\nprogram so far:\n  %s", len(w.trace), fmt.Sprintf(format, a...), strings.Join(tail(w.trace, 70), "\n  "))
	w.failed = true
}

func tail(xs []string, n int) []string {
	if len(xs) > n {
		return xs[len(xs)-n:]
	}
	return xs
}

func (w *world) path(n *node) string {
	if n == w.root {
		return "/"
	}
	var comps []string
	for c := n; c != nil && c != w.root; c = c.parent {
		comps = append([]string{c.name}, comps...)
	}
	return "/" + strings.Join(comps, "/")
}

func (w *world) depth(n *node) int {
	d := 0
	for c := n; c != w.root && c != nil; c = c.parent {
		d++
	}
	return d
}

// linked nodes in a stable order
func (w *world) linkedNodes(pred func(*node) bool) []*node {
	var out []*node
	for _, n := range w.nodes {
		if n.linked && (pred == nil || pred(n)) {
			out = append(out, n)
		}
	}
	return out
}

// live inodes: linked, or still referenced by the kernel
func (w *world) liveInodes() map[uint64]*node {
	m := map[uint64]*node{}
	for _, n := range w.nodes {
		if n.linked || n.known > 0 {
			m[n.inode] = n
		}
	}
	return m
}

// ensureKnown makes the kernel know n (walks from the root, looking up every component it has forgotten).
func (w *world) ensureKnown(n *node) bool {
	if n == w.root || n.known > 0 {
		return true
	}
	if !w.ensureKnown(n.parent) {
		return false
	}
	return w.lookup(n.parent, n.name, "re-lookup after forget")
}

func (w *world) lookup(dir *node, name, why string) bool {
	ch := dir.children[name]
	e, err := w.m.Lookup(dir.inode, name)
	en := fuseh.Errno(err)
	w.logf("lookup(%s [inode %d], %q) = %s inode %d  (%s)", w.path(dir), dir.inode, name, ok(en), e.Child, why)
	w.res.Stat("op_lookup", 1)
	if ch == nil {
		if en != "ENOENT" {
			w.violate("errno-mismatch", "lookup-absent|got="+en, "lookup of the absent name %q in %s answered %q, expected ENOENT", name, w.path(dir), en)
			return false
		}
		return true
	}
	if en != "" {
		w.violate("errno-mismatch", "lookup-existing|"+kindOf(ch)+"|got="+en, "lookup of %s answered %q", w.path(ch), en)
		return false
	}
	ch.known++
	if uint64(e.Child) != ch.inode {
		w.violate("lookup-inode-changed", kindOf(ch), "lookup of %s returns inode %d, it was created with inode %d", w.path(ch), e.Child, ch.inode)
		return false
	}
	if e.Attributes.Mode.IsDir() != ch.isDir {
		w.violate("lookup-wrong-type", kindOf(ch), "lookup of %s: dir=%v", w.path(ch), e.Attributes.Mode.IsDir())
		return false
	}
	if !ch.isDir && e.Attributes.Size != uint64(len(ch.content)) {
		w.violate("lookup-wrong-size", "file", "lookup of %s: size %d, expected %d", w.path(ch), e.Attributes.Size, len(ch.content))
		return false
	}
	return true
}

func ok(en string) string {
	if en == "" {
		return "ok"
	}
	return en
}

func kindOf(n *node) string {
	if n.isDir {
		return "dir"
	}
	return "file"
}

func (w *world) newNode(parent *node, name string, isDir bool, inode uint64) *node {
	w.nextID++
	n := &node{id: w.nextID, isDir: isDir, parent: parent, name: name, inode: inode, linked: true, known: 1, children: map[string]*node{}}
	parent.children[name] = n
	w.nodes = append(w.nodes, n)
	return n
}

func (w *world) unlinkNode(n *node) {
	delete(n.parent.children, n.name)
	n.linked = false
}

// ---- operations

func (w *world) opCreate(isDir bool) {
	dirs := w.linkedNodes(func(n *node) bool { return n.isDir && w.depth(n) < 3 })
	dirs = append(dirs, w.root)
	dir := dirs[w.r.Intn(len(dirs))]
	if !w.ensureKnown(dir) {
		return
	}
	name := names[w.r.Intn(len(names))]
	exists := dir.children[name] != nil
	live := w.liveInodes()
	var inode uint64
	var err error
	opn := "create"
	if isDir {
		opn = "mkdir"
		e, er := w.m.MkDir(dir.inode, name)
		inode, err = uint64(e.Child), er
	} else {
		e, er := w.m.Create(dir.inode, name)
		inode, err = uint64(e.Child), er
	}
	en := fuseh.Errno(err)
	w.logf("%s(%s [inode %d], %q) = %s inode %d", opn, w.path(dir), dir.inode, name, ok(en), inode)
	w.res.Stat("op_"+opn, 1)
	if exists {
		w.res.Stat("op_"+opn+"_existing_name", 1)
		if en != "EEXIST" {
			w.violate("errno-mismatch", opn+"-existing-name|got="+ok(en), "%s of the existing name %s/%s answered %q, expected EEXIST", opn, w.path(dir), name, ok(en))
		}
		return
	}
	if en != "" {
		w.violate("errno-mismatch", opn+"-new-name|got="+en, "%s of the new name %q in %s failed: %s", opn, name, w.path(dir), en)
		return
	}
	if prev, dup := live[inode]; dup {
		state := "still linked as " + w.path(prev)
		if !prev.linked {
			state = fmt.Sprintf("unlinked but still referenced by the kernel (%d lookups outstanding)", prev.known)
		}
		w.violate("live-inode-reissued", opn+"|previous-holder-"+map[bool]string{true: "linked", false: "unlinked-referenced"}[prev.linked], "%s %s/%s was given inode %d, which belongs to a live %s: %s", opn, w.path(dir), name, inode, kindOf(prev), state)
		return
	}
	for _, n := range w.nodes {
		if n.inode == inode {
			w.res.Stat("inode_numbers_reused_after_release", 1)
			break
		}
	}
	w.newNode(dir, name, isDir, inode)
}

func (w *world) pickFile() *node {
	fs := w.linkedNodes(func(n *node) bool { return !n.isDir })
	if len(fs) == 0 {
		return nil
	}
	return fs[w.r.Intn(len(fs))]
}

func (w *world) opWrite() {
	f := w.pickFile()
	if f == nil || !w.ensureKnown(f) {
		return
	}
	leaf := int(w.p.Leaf)
	off := []int{0, len(f.content), w.r.Intn(len(f.content) + 1), len(f.content) + w.r.Intn(10), w.r.Intn(2*leaf + 1)}[w.r.Intn(5)]
	n := []int{1, 7, leaf - 1, leaf, leaf + 1, 1 + w.r.Intn(3*leaf)}[w.r.Intn(6)] // never empty: the kernel does not send empty writes
	data := gen.Bytes(w.p.Seed, fmt.Sprint("w", len(w.trace)), n)
	err := w.m.Write(f.inode, int64(off), data)
	en := fuseh.Errno(err)
	w.logf("write(%s [inode %d], off=%d, %d bytes) = %s", w.path(f), f.inode, off, n, ok(en))
	w.res.Stat("op_write", 1)
	if en != "" {
		w.violate("errno-mismatch", "write|got="+en, "write to %s failed: %s", w.path(f), en)
		return
	}
	if off+n > len(f.content) {
		f.content = append(f.content, make([]byte, off+n-len(f.content))...)
	}
	copy(f.content[off:], data)
}

func (w *world) opTruncate() {
	f := w.pickFile()
	if f == nil || !w.ensureKnown(f) {
		return
	}
	size := []int{0, len(f.content) / 2, len(f.content), len(f.content) + 1 + w.r.Intn(100), w.r.Intn(int(w.p.Leaf) + 2)}[w.r.Intn(5)]
	err := w.m.Truncate(f.inode, uint64(size))
	en := fuseh.Errno(err)
	w.logf("truncate(%s [inode %d], %d) = %s", w.path(f), f.inode, size, ok(en))
	w.res.Stat("op_truncate", 1)
	if en != "" {
		w.violate("errno-mismatch", "truncate|got="+en, "truncate of %s to %d failed: %s", w.path(f), size, en)
		return
	}
	if size <= len(f.content) {
		f.content = f.content[:size]
	} else {
		f.content = append(f.content, make([]byte, size-len(f.content))...)
	}
}

func (w *world) opRead() {
	f := w.pickFile()
	if f == nil || !w.ensureKnown(f) {
		return
	}
	size := len(f.content)
	var off, n int
	kind := ""
	switch w.r.Intn(4) {
	case 0:
		off, n, kind = 0, size, "whole-file-exact"
	case 1:
		off, n, kind = 0, size+1+w.r.Intn(4096), "crossing-eof"
	case 2:
		off = w.r.Intn(size + 1)
		n = w.r.Intn(size - off + 1)
		kind = "inside"
	default:
		off, n, kind = w.r.Intn(size+1), 4096, "page"
		if off+n > size {
			kind = "crossing-eof"
		}
	}
	got, err := w.m.ReadFile(f.inode, int64(off), n)
	en := fuseh.Errno(err)
	w.logf("read(%s [inode %d, %d bytes], off=%d, len=%d) = %s %d bytes", w.path(f), f.inode, size, off, n, ok(en), len(got))
	w.res.Stat("op_read", 1)
	w.res.Seen("read_kinds", kind)
	if en != "" {
		w.violate("errno-mismatch", "read|"+kind+"|got="+en, "read of %s (%d bytes) at %d len %d failed: %s", w.path(f), size, off, n, en)
		return
	}
	want := []byte{}
	if off < size {
		end := off + n
		if end > size {
			end = size
		}
		want = f.content[off:end]
	}
	if !bytes.Equal(got, want) {
		w.violate("read-wrong-bytes", kind, "read of %s (%d bytes) at %d len %d returned %d bytes, expected %d", w.path(f), size, off, n, len(got), len(want))
	}
}

func (w *world) inSubtree(n, root *node) bool {
	for c := n; c != nil; c = c.parent {
		if c == root {
			return true
		}
	}
	return false
}

func (w *world) opRename() {
	srcs := w.linkedNodes(nil)
	if len(srcs) == 0 {
		return
	}
	src := srcs[w.r.Intn(len(srcs))]
	dirs := w.linkedNodes(func(n *node) bool { return n.isDir && w.depth(n) < 3 && !w.inSubtree(n, src) })
	dirs = append(dirs, w.root)
	dst := dirs[w.r.Intn(len(dirs))]
	name := names[w.r.Intn(len(names))]
	target := dst.children[name]
	if target == src {
		return // rename onto itself: the kernel answers without asking the file system
	}
	if target != nil && target.isDir != src.isDir {
		return // the VFS rejects file-onto-directory and directory-onto-file
	}
	if !w.ensureKnown(src) || !w.ensureKnown(dst) {
		return
	}
	if target != nil && !w.ensureKnown(target) {
		return
	}
	sp := src.parent
	err := w.m.Rename("", src.name, dst.inode, name, sp.inode)
	en := fuseh.Errno(err)
	desc := "onto-nothing"
	switch {
	case target != nil && !target.isDir:
		desc = "file-onto-file"
	case target != nil && len(target.children) == 0:
		desc = "dir-onto-empty-dir"
	case target != nil:
		desc = "dir-onto-non-empty-dir"
	}
	w.logf("rename(%s -> %s/%s) [%s] = %s", w.path(src), strings.TrimSuffix(w.path(dst), "/"), name, desc, ok(en))
	w.res.Stat("op_rename", 1)
	w.res.Seen("rename_kinds", desc)
	if en == "ENOSYS" {
		w.res.Stat("unsupported_answers", 1)
		return // unsupported by this file system: the reference skips the step (the state must be unchanged)
	}
	if desc == "dir-onto-non-empty-dir" {
		if en != "ENOTEMPTY" {
			w.violate("errno-mismatch", "rename|"+desc+"|got="+ok(en), "rename of directory %s onto the non-empty directory %s/%s answered %q, expected ENOTEMPTY", w.path(src), w.path(dst), name, ok(en))
		}
		return
	}
	if en != "" {
		w.violate("errno-mismatch", "rename|"+desc+"|got="+en, "rename %s -> %s/%s failed: %s", w.path(src), w.path(dst), name, en)
		return
	}
	if target != nil {
		w.unlinkNode(target)
	}
	delete(sp.children, src.name)
	src.parent, src.name = dst, name
	dst.children[name] = src
}

func (w *world) opRemove() {
	cands := w.linkedNodes(nil)
	if len(cands) == 0 {
		return
	}
	n := cands[w.r.Intn(len(cands))]
	if !w.ensureKnown(n) {
		return
	}
	var err error
	opn := "unlink"
	if n.isDir {
		opn = "rmdir"
		err = w.m.RmDir(n.parent.inode, n.name)
	} else {
		err = w.m.Unlink(n.parent.inode, n.name)
	}
	en := fuseh.Errno(err)
	w.logf("%s(%s) [%d children] = %s", opn, w.path(n), len(n.children), ok(en))
	w.res.Stat("op_"+opn, 1)
	if n.isDir && len(n.children) > 0 {
		w.res.Stat("op_rmdir_non_empty", 1)
		if en != "ENOTEMPTY" {
			w.violate("errno-mismatch", "rmdir-non-empty|got="+ok(en), "rmdir of the non-empty directory %s answered %q, expected ENOTEMPTY", w.path(n), ok(en))
		}
		return
	}
	if en != "" {
		w.violate("errno-mismatch", opn+"|got="+en, "%s of %s failed: %s", opn, w.path(n), en)
		return
	}
	w.unlinkNode(n)
}

func (w *world) opForget() {
	// the kernel only forgets a directory once it has forgotten everything below it (child dentries pin their parent)
	var cands []*node
	for _, n := range w.nodes {
		if n.known > 0 {
			pinned := false
			for _, ch := range n.children {
				if ch.known > 0 {
					pinned = true
				}
			}
			if !pinned {
				cands = append(cands, n)
			}
		}
	}
	if len(cands) == 0 {
		return
	}
	// prefer unlinked nodes half of the time (that is what frees inode numbers)
	if w.r.Intn(2) == 0 {
		var un []*node
		for _, n := range cands {
			if !n.linked {
				un = append(un, n)
			}
		}
		if len(un) > 0 {
			cands = un
		}
	}
	n := cands[w.r.Intn(len(cands))]
	k := 1
	if w.r.Intn(3) > 0 {
		k = n.known // drop every reference at once, as the kernel's batched forget does
	}
	// the kernel sends the number of lookups to forget in one request; a file system that handles one reference
	// per request is equivalent to k requests of 1
	var err error
	if w.r.Intn(2) == 0 {
		for i := 0; i < k && err == nil; i++ {
			err = w.m.Forget(n.inode, 1)
		}
		w.logf("forget(inode %d, 1) x %d  [%s %s, linked=%v, %d outstanding before]", n.inode, k, kindOf(n), n.name, n.linked, n.known)
	} else {
		err = w.m.Forget(n.inode, uint64(k))
		w.logf("forget(inode %d, n=%d)  [%s %s, linked=%v, %d outstanding before]", n.inode, k, kindOf(n), n.name, n.linked, n.known)
	}
	w.res.Stat("op_forget", 1)
	if n.linked {
		w.res.Stat("op_forget_of_linked_inode", 1)
	}
	n.known -= k
	if en := fuseh.Errno(err); en != "" {
		w.violate("errno-mismatch", "forget|got="+en, "forget of inode %d failed: %s", n.inode, en)
	}
}

func (w *world) opLookup() {
	dirs := w.linkedNodes(func(n *node) bool { return n.isDir })
	dirs = append(dirs, w.root)
	dir := dirs[w.r.Intn(len(dirs))]
	if !w.ensureKnown(dir) {
		return
	}
	w.lookup(dir, names[w.r.Intn(len(names))], "lookup")
}

func (w *world) opReadDir() {
	dirs := w.linkedNodes(func(n *node) bool { return n.isDir })
	dirs = append(dirs, w.root)
	dir := dirs[w.r.Intn(len(dirs))]
	if !w.ensureKnown(dir) {
		return
	}
	for _, bs := range []int{1 << 16, 32, 72} {
		got, calls, err := w.m.ReadDirAll(dir.inode, bs, len(dir.children)+5)
		w.res.Stat("op_readdir", 1)
		if err != nil {
			w.logf("readdir(%s, buffer %d) failed: %v", w.path(dir), bs, err)
			w.violate("readdir-failed", fmt.Sprintf("buffer=%d", bs), "listing %s (%d children) with a %d byte buffer: %v", w.path(dir), len(dir.children), bs, err)
			return
		}
		var gn []string
		for _, d := range got {
			if d.Name != "." && d.Name != ".." {
				gn = append(gn, d.Name)
			}
		}
		sort.Strings(gn)
		var wn []string
		for name := range dir.children {
			wn = append(wn, name)
		}
		sort.Strings(wn)
		w.logf("readdir(%s, buffer %d) = %v in %d calls", w.path(dir), bs, gn, calls)
		if strings.Join(gn, "\x00") != strings.Join(wn, "\x00") {
			single := "resumed"
			if bs >= 1<<16 {
				single = "single-call"
			}
			w.violate("readdir-differs", single, "listing %s with a %d byte buffer (%d calls) gives %v, the directory holds %v", w.path(dir), bs, calls, gn, wn)
			return
		}
		for _, d := range got {
			if ch := dir.children[d.Name]; ch != nil && (d.Inode != ch.inode || d.IsDir != ch.isDir) {
				w.violate("readdir-wrong-entry", kindOf(ch), "listing %s: %q has inode %d dir=%v, expected inode %d dir=%v", w.path(dir), d.Name, d.Inode, d.IsDir, ch.inode, ch.isDir)
				return
			}
		}
	}
}

func (w *world) opGetAttr() {
	var cands []*node
	for _, n := range w.nodes {
		if n.known > 0 {
			cands = append(cands, n)
		}
	}
	if len(cands) == 0 {
		return
	}
	n := cands[w.r.Intn(len(cands))]
	a, err := w.m.GetAttr(n.inode)
	en := fuseh.Errno(err)
	w.logf("getattr(inode %d) [%s, linked=%v] = %s size %d", n.inode, kindOf(n), n.linked, ok(en), a.Size)
	w.res.Stat("op_getattr", 1)
	if en != "" {
		w.violate("errno-mismatch", "getattr|linked="+fmt.Sprint(n.linked)+"|got="+en, "getattr of inode %d (known to the kernel, linked=%v) failed: %s", n.inode, n.linked, en)
		return
	}
	if a.Mode.IsDir() != n.isDir || (!n.isDir && a.Size != uint64(len(n.content))) {
		w.violate("getattr-disagrees", kindOf(n), "getattr of inode %d: dir=%v size=%d, expected dir=%v size=%d", n.inode, a.Mode.IsDir(), a.Size, n.isDir, len(n.content))
	}
}

// ---- structural comparison after every step

func (w *world) checkStructures() {
	st := w.m.M.VerifSnapshot()
	byInode := map[uint64]string{}
	type key struct {
		parent uint64
		name   string
	}
	ns := map[key]uint64{}
	for _, n := range st.Names {
		if n.Parent == 1 && n.Inode == 1 {
			continue // the root's own entry
		}
		ns[key{n.Parent, n.Name}] = n.Inode
		if prev, dup := byInode[n.Inode]; dup {
			w.violate("inode-shared-by-two-names", "namespace", "inode %d is the target of both %q and %q", n.Inode, prev, fmt.Sprintf("%d/%s", n.Parent, n.Name))
			return
		}
		byInode[n.Inode] = fmt.Sprintf("%d/%s", n.Parent, n.Name)
		if _, in := st.Nodes[n.Inode]; !in {
			w.violate("name-without-inode", "namespace", "the name %q in directory inode %d points to inode %d, which is not in the inode table", n.Name, n.Parent, n.Inode)
			return
		}
	}
	// namespace == reference
	want := map[key]*node{}
	for _, n := range w.nodes {
		if n.linked {
			want[key{n.parent.inode, n.name}] = n
		}
	}
	for k, n := range want {
		got, in := ns[k]
		if !in {
			w.violate("name-missing", kindOf(n), "%s is missing from the mount's name space", w.path(n))
			return
		}
		if got != n.inode {
			w.violate("name-points-elsewhere", kindOf(n), "%s points to inode %d, expected %d", w.path(n), got, n.inode)
			return
		}
		nd := st.Nodes[n.inode]
		if nd.IsDir != n.isDir {
			w.violate("node-wrong-type", kindOf(n), "%s: inode %d has dir=%v", w.path(n), n.inode, nd.IsDir)
			return
		}
		if !n.isDir && nd.Size != uint64(len(n.content)) {
			w.violate("node-wrong-size", "file", "%s: inode %d has size %d, expected %d", w.path(n), n.inode, nd.Size, len(n.content))
			return
		}
	}
	for k, ino := range ns {
		if want[k] == nil {
			w.violate("name-unexpected", "namespace", "the mount holds the name %q (inode %d) in directory inode %d, the reference tree does not", k.name, ino, k.parent)
			return
		}
	}
	// directory map == name space
	nd := 0
	for p, ents := range st.ReadDir {
		for _, e := range ents {
			nd++
			if ns[key{p, e.Name}] != e.Inode {
				w.violate("dirent-without-name", "readdir-map", "directory inode %d lists %q (inode %d) which the name space does not hold", p, e.Name, e.Inode)
				return
			}
		}
	}
	if nd != len(ns) {
		w.violate("name-without-dirent", "readdir-map", "%d names, %d directory entries", len(ns), nd)
		return
	}
	// every inode the kernel still references is in the inode table
	for _, n := range w.nodes {
		if n.known > 0 {
			if _, in := st.Nodes[n.inode]; !in {
				// the number may legitimately be reused only once the kernel has forgotten it
				w.violate("referenced-inode-dropped", kindOf(n)+"|linked="+fmt.Sprint(n.linked), "inode %d (%s, linked=%v) still has %d lookups outstanding but is no longer in the inode table", n.inode, kindOf(n), n.linked, n.known)
				return
			}
		}
	}
	w.res.Stat("structure_checks", 1)
}

func run18(c drv.Case, res *drv.Result) {
	var p params
	drv.Params(c, &p)
	cafsh.InstallWriteProgressMonitor()
	res.Canon = string(c.Params)
	env := coreh.NewEnv(memstore.Config{})
	if err := env.CreateRepo(nil, "r"); err != nil {
		panic(err)
	}
	scratch, err := os.MkdirTemp(os.Getenv("VERIF_SCRATCH"), "c18-")
	if err != nil {
		panic(err)
	}
	defer os.RemoveAll(scratch)
	mountActor := memstore.NewActor("mount")
	m, err := fuseh.NewMutable(env, mountActor, "r", scratch+"/staging", p.Leaf)
	if err != nil {
		res.Violate("mount-failed", "mutable", "NewMutableFS: %v", err)
		return
	}
	w := &world{p: p, r: rand.New(rand.NewSource(p.Seed)), m: m, res: res}
	w.root = &node{isDir: true, inode: 1, linked: false, known: 1 << 30, children: map[string]*node{}}
	res.Nontrivial = true
	defer func() { res.Trace = tail(w.trace, 80) }()

	weights := map[string][]int{ // create mkdir write truncate read rename remove forget lookup readdir getattr
		"mixed": {10, 8, 8, 4, 8, 9, 9, 10, 8, 5, 4},
		"churn": {12, 12, 2, 1, 2, 4, 16, 18, 6, 3, 2},
		"deep":  {6, 14, 3, 1, 3, 12, 8, 8, 8, 6, 2},
		"files": {14, 3, 16, 8, 16, 6, 6, 5, 4, 3, 3},
	}[p.Profile]
	total := 0
	for _, x := range weights {
		total += x
	}
	for step := 0; step < p.Steps && !w.failed; step++ {
		x := w.r.Intn(total)
		k := 0
		for ; x >= weights[k]; k++ {
			x -= weights[k]
		}
		switch k {
		case 0:
			w.opCreate(false)
		case 1:
			w.opCreate(true)
		case 2:
			w.opWrite()
		case 3:
			w.opTruncate()
		case 4:
			w.opRead()
		case 5:
			w.opRename()
		case 6:
			w.opRemove()
		case 7:
			w.opForget()
		case 8:
			w.opLookup()
		case 9:
			w.opReadDir()
		case 10:
			w.opGetAttr()
		}
		if !w.failed {
			w.checkStructures()
		}
	}
	res.Stat("programs", 1)
	res.Stat("steps", int64(len(w.trace)))
	if w.failed {
		return
	}
	// every file's content through the mount, then commit and download
	want := coreh.Tree{}
	for _, n := range w.linkedNodes(func(n *node) bool { return !n.isDir }) {
		want[strings.TrimPrefix(w.path(n), "/")] = n.content
		if !w.ensureKnown(n) {
			return
		}
		got, err := w.m.ReadFile(n.inode, 0, len(n.content))
		if err != nil || !bytes.Equal(got, n.content) {
			w.violate("final-read-differs", "file", "final read of %s: %d bytes err=%v, expected %d bytes", w.path(n), len(got), err, len(n.content))
			return
		}
	}
	// the commit runs under a progress monitor: not returned and no store call for 90 s = stalled (e.g. a walk that
	// deadlocks on its own concurrency limit); a stalled commit is a violation, not a time-out of the case
	type cres struct {
		id  string
		err error
	}
	cdone := make(chan cres, 1)
	go func() {
		id, err := w.m.Commit()
		cdone <- cres{id, err}
	}()
	var id string
	last, idle := -1, 0
waitCommit:
	for {
		select {
		case cr := <-cdone:
			id, err = cr.id, cr.err
			break waitCommit
		case <-time.After(time.Second):
			if n, _ := mountActor.Calls(); n == last {
				idle++
			} else {
				last, idle = n, 0
			}
			if idle >= 90 {
				w.violate("commit-stalled", "commit", "Commit of a tree of %d files has not returned and made no store call for 90 s (after %d store calls)", len(want), last)
				return
			}
		}
	}
	w.logf("commit = %v (bundle %s)", err, id)
	if err != nil {
		w.violate("commit-failed", "commit", "Commit of a tree of %d files failed: %v", len(want), err)
		return
	}
	res.Stat("commits", 1)
	_, ents, err := env.Entries(nil, "r", id)
	if err != nil {
		w.violate("committed-bundle-unreadable", "metadata", "bundle %s: %v", id, err)
		return
	}
	seen := map[string]bool{}
	for _, e := range ents {
		pth := strings.TrimPrefix(e.NameWithPath, "/")
		if seen[pth] {
			w.violate("committed-entry-twice", "entries", "the committed bundle lists %q twice", pth)
			return
		}
		seen[pth] = true
		c, in := want[pth]
		if !in {
			w.violate("committed-entry-unexpected", "entries", "the committed bundle lists %q which is not in the visible tree", pth)
			return
		}
		if e.Size != uint64(len(c)) {
			w.violate("committed-entry-size", "entries", "entry %q has size %d, the file has %d bytes", pth, e.Size, len(c))
			return
		}
	}
	if len(seen) != len(want) {
		w.violate("committed-entries-missing", "entries", "the committed bundle lists %d files, the visible tree holds %d", len(seen), len(want))
		return
	}
	dest := env.W.Store("dest")
	if err := env.Publish(nil, "r", id, dest.For(nil), 3); err != nil {
		w.violate("committed-bundle-broken", "download", "bundle %s does not download: %v", id, err)
		return
	}
	got := coreh.Tree{}
	for k, v := range coreh.WithoutMeta(coreh.StoreTree(dest)) {
		got[strings.TrimPrefix(k, "/")] = v
	}
	if d := coreh.DiffTrees(got, want); d != "" {
		w.violate("committed-tree-differs", "download", "downloaded bundle differs from the visible tree: %s", d)
		return
	}
	res.Stat("files_committed", int64(len(want)))
	res.Sample = map[string]interface{}{"profile": p.Profile, "steps": len(w.trace), "files_committed": len(want), "first_steps": tail(reverseHead(w.trace, 12), 12)}
}

func reverseHead(xs []string, n int) []string {
	if len(xs) > n {
		return xs[:n]
	}
	return xs
}

func TestC18(t *testing.T) {
	fuseh.LimitOpenFiles(1024)
	drv.Main(t, drv.Driver{ID: "C18", Gen: gen18, Run: run18, CaseTimeout: 30 * time.Minute})
}
