module verifharness

go 1.15

replace github.com/oneconcern/datamon => /repo

replace github.com/spf13/pflag => github.com/fredbi/pflag v1.0.6-0.20201106154427-e6824c13371a

require (
	github.com/anishathalye/porcupine v1.3.0
	github.com/jacobsa/fuse v0.0.0-20220531202254-21122235c77a
	github.com/oneconcern/datamon v0.0.0-00010101000000-000000000000
	github.com/segmentio/ksuid v1.0.4
	github.com/spf13/afero v1.9.3
	go.uber.org/zap v1.24.0
	gopkg.in/yaml.v2 v2.4.0
)
