package c15

import (
	"bytes"
	"context"
	"fmt"
	"hash/crc32"
	"io"
	"math/rand"
	"runtime"
	"sort"
	"strings"
	"sync"
	"testing"
	"time"

	"github.com/oneconcern/datamon/pkg/cafs"
	"github.com/oneconcern/datamon/pkg/core"
	"github.com/oneconcern/datamon/pkg/model"

	"verifharness/coreh"
	"verifharness/drv"
	"verifharness/gen"
	"verifharness/memstore"
)

// C15 — concurrent uploads, downloads and commits do not interfere; no data race.
//
// Monitors: (1) the Go race detector (the driver is built with -race; reports are collected by the
// orchestrator and count when one of their stacks has a datamon frame); (2) solo-equivalence: every
// operation completes and its result is what it produces alone (entries of uploads and commits computed
// in a separate reference context where each operation runs alone; downloads equal the recorded trees;
// a label ends on one of the values written to it); (3) store-level: every blob ever written has exactly
// the bytes the solo runs wrote under that key (online monitor on the store's event stream).

type opSpec struct {
	Op      string            `json:"op"` // upload | split-upload | download | label | commit | list | cafs-readers
	Repo    string            `json:"repo,omitempty"`
	Files   map[string]string `json:"files,omitempty"` // path -> content label
	Diamond int               `json:"diamond,omitempty"`
	Split   string            `json:"split,omitempty"`
	Bundle  int               `json:"bundle,omitempty"` // index of a pre-existing bundle
	Label   string            `json:"label,omitempty"`
	Conc    int               `json:"conc,omitempty"`
}

type params struct {
	Leaf     uint32   `json:"leaf"`
	Procs    int      `json:"gomaxprocs"`
	Delays   bool     `json:"delays"`
	Ops      []opSpec `json:"ops"`
	NDiamond int      `json:"diamonds_for_splits"`
	NCommit  int      `json:"diamonds_to_commit"`
	Seed     int64    `json:"seed"`
}

const poolSize = 10

func files(r *rand.Rand, n int, prefix string) map[string]string {
	m := map[string]string{}
	for j := 0; j < n; j++ {
		// few contents, many paths: identical contents are stored simultaneously by different clients
		m[fmt.Sprintf("%sd%d/f%d", prefix, r.Intn(2), r.Intn(8))] = fmt.Sprintf("c%d", r.Intn(poolSize))
	}
	return m
}

func gen15(seed int64, tier string) []drv.Case {
	r := gen.Rand(seed, "c15")
	n := 16
	if tier == "thorough" {
		n = 400
	}
	var cs []drv.Case
	for i := 0; i < n; i++ {
		p := params{Leaf: uint32([]int{64, 4096}[r.Intn(2)]), Procs: []int{2, 4, 16, 1}[i%4], Delays: i%4 != 3, Seed: r.Int63(), NDiamond: 1 + r.Intn(2), NCommit: 1 + r.Intn(2)}
		k := 4 + r.Intn(13)
		for j := 0; j < k; j++ {
			switch r.Intn(9) {
			case 0, 1, 2:
				p.Ops = append(p.Ops, opSpec{Op: "upload", Repo: []string{"r1", "r2"}[r.Intn(2)], Files: files(r, 1+r.Intn(5), ""), Conc: 1 + r.Intn(4)})
			case 3, 4:
				fs := files(r, 1+r.Intn(4), fmt.Sprintf("s%d/", j))
				conc := 1 + r.Intn(4)
				if r.Intn(3) == 0 {
					// a split of a few dozen files uploaded by many workers at once (results queue up behind the index writer)
					conc = 4 + r.Intn(13)
					for f := 0; f < 20+r.Intn(30); f++ {
						fs[fmt.Sprintf("s%d/many/f%d", j, f)] = fmt.Sprintf("c%d", r.Intn(poolSize))
					}
				}
				p.Ops = append(p.Ops, opSpec{Op: "split-upload", Diamond: r.Intn(p.NDiamond), Split: fmt.Sprintf("s%d", j), Files: fs, Conc: conc})
			case 5:
				p.Ops = append(p.Ops, opSpec{Op: "download", Bundle: r.Intn(3), Conc: 1 + r.Intn(10)})
			case 6:
				p.Ops = append(p.Ops, opSpec{Op: "label", Repo: "r1", Label: []string{"l1", "l2"}[r.Intn(2)], Bundle: r.Intn(3)})
			case 7:
				p.Ops = append(p.Ops, opSpec{Op: "list"})
			default:
				p.Ops = append(p.Ops, opSpec{Op: "cafs-readers", Conc: 2 + r.Intn(3)})
			}
		}
		for d := 0; d < p.NCommit; d++ {
			p.Ops = append(p.Ops, opSpec{Op: "commit", Diamond: d})
		}
		// two clients storing the very same tree at the same time
		same := files(r, 2+r.Intn(3), "")
		p.Ops = append(p.Ops, opSpec{Op: "upload", Repo: "r1", Files: same, Conc: 2}, opSpec{Op: "upload", Repo: "r2", Files: same, Conc: 2})
		r.Shuffle(len(p.Ops), func(a, b int) { p.Ops[a], p.Ops[b] = p.Ops[b], p.Ops[a] })
		cs = append(cs, drv.Case{ID: fmt.Sprintf("mix-%d", i), Class: fmt.Sprintf("gomaxprocs=%d", p.Procs), Params: drv.MustJSON(p)})
	}
	return cs
}

type entry struct {
	Hash string
	Size uint64
}

func entriesOf(e *coreh.Env, repo, id string) (map[string]entry, error) {
	_, ents, err := e.Entries(nil, repo, id)
	if err != nil {
		return nil, err
	}
	m := map[string]entry{}
	for _, en := range ents {
		if _, dup := m[en.NameWithPath]; dup {
			return nil, fmt.Errorf("entry %q listed twice", en.NameWithPath)
		}
		m[en.NameWithPath] = entry{en.Hash, en.Size}
	}
	return m, nil
}

func sameEntries(a, b map[string]entry) string {
	for k, v := range a {
		if w, ok := b[k]; !ok {
			return fmt.Sprintf("%q missing", k)
		} else if w != v {
			return fmt.Sprintf("%q differs (%s…/%d vs %s…/%d)", k, v.Hash[:8], v.Size, w.Hash[:8], w.Size)
		}
	}
	for k := range b {
		if _, ok := a[k]; !ok {
			return fmt.Sprintf("%q unexpected", k)
		}
	}
	return ""
}

type result struct {
	kind, sig, msg string
}

func run15(c drv.Case, res *drv.Result) {
	var p params
	drv.Params(c, &p)
	res.Canon = string(c.Params)
	prev := runtime.GOMAXPROCS(p.Procs)
	defer runtime.GOMAXPROCS(prev)

	content := func(label string) []byte {
		var k int
		fmt.Sscanf(label[1:], "%d", &k)
		return gen.Bytes(p.Seed, label, (k%5)*int(p.Leaf)+1+(k*41)%int(p.Leaf))
	}
	tree := func(fs map[string]string) coreh.Tree {
		t := coreh.Tree{}
		for pth, l := range fs {
			t[pth] = content(l)
		}
		return t
	}
	must := func(err error) {
		if err != nil {
			panic(fmt.Sprintf("set-up failed: %v", err))
		}
	}

	// ---- two contexts with the same initial history: ref (everything solo) and env (concurrent)
	type ctxt struct {
		env      *coreh.Env
		pre      []string // pre-existing bundles of r1
		preTrees []coreh.Tree
		dsplit   []string // diamonds receiving concurrent split uploads
		dcommit  []string // diamonds committed concurrently (splits complete)
		big      cafs.Key
		bigData  []byte
		nsrc     int
		mu       sync.Mutex
	}
	setup := func() *ctxt {
		cx := &ctxt{env: coreh.NewEnv(memstore.Config{})}
		must(cx.env.CreateRepo(nil, "r1"))
		must(cx.env.CreateRepo(nil, "r2"))
		sr := gen.Rand(p.Seed, "setup")
		for i := 0; i < 3; i++ {
			t := tree(files(sr, 2+sr.Intn(4), fmt.Sprintf("pre%d/", i)))
			id, err := cx.env.Upload(nil, "r1", cx.env.MemConsumable(fmt.Sprint("pre", i), t).For(nil), coreh.UploadOpts{Leaf: p.Leaf, Concurrency: 2})
			must(err)
			cx.pre, cx.preTrees = append(cx.pre, id), append(cx.preTrees, t)
		}
		for i := 0; i < p.NDiamond; i++ {
			d, err := cx.env.CreateDiamond(nil, "r1", "")
			must(err)
			cx.dsplit = append(cx.dsplit, d.DiamondID)
		}
		for i := 0; i < p.NCommit; i++ {
			d, err := cx.env.CreateDiamond(nil, "r2", "")
			must(err)
			for s := 0; s < 2+sr.Intn(2); s++ {
				t := tree(files(sr, 1+sr.Intn(3), fmt.Sprintf("c%d-s%d/", i, s)))
				_, err := cx.env.SplitUpload(nil, "r2", d.DiamondID, fmt.Sprintf("split%d", s), cx.env.MemConsumable(fmt.Sprintf("csrc%d-%d", i, s), t).For(nil), 2)
				must(err)
			}
			cx.dcommit = append(cx.dcommit, d.DiamondID)
		}
		// one object of several leaves for the shared-cache readers
		cx.bigData = gen.Bytes(p.Seed, "big", 6*int(p.Leaf)+17)
		fs, err := cafs.New(cafs.LeafSize(p.Leaf), cafs.Backend(cx.env.Blob.For(nil)), cafs.Logger(coreh.Nop))
		must(err)
		pr, err := fs.Put(context.Background(), bytes.NewReader(cx.bigData))
		must(err)
		cx.big = pr.Key
		return cx
	}
	ref, con := setup(), setup()

	// ---- reference: every operation alone, in order
	type expect struct {
		entries map[string]entry
	}
	exp := make([]expect, len(p.Ops))
	for i, o := range p.Ops {
		switch o.Op {
		case "upload":
			ref.nsrc++
			id, err := ref.env.Upload(nil, o.Repo, ref.env.MemConsumable(fmt.Sprint("src", ref.nsrc), tree(o.Files)).For(nil), coreh.UploadOpts{Leaf: p.Leaf, Concurrency: o.Conc})
			must(err)
			e, err := entriesOf(ref.env, o.Repo, id)
			must(err)
			exp[i].entries = e
		case "commit":
			d, err := ref.env.Commit(nil, "r2", ref.dcommit[o.Diamond], model.IgnoreConflicts)
			must(err)
			e, err := entriesOf(ref.env, "r2", d.BundleID)
			must(err)
			exp[i].entries = e
		case "split-upload":
			ref.nsrc++
			_, err := ref.env.SplitUpload(nil, "r1", ref.dsplit[o.Diamond], o.Split, ref.env.MemConsumable(fmt.Sprint("src", ref.nsrc), tree(o.Files)).For(nil), o.Conc)
			must(err)
		}
	}
	// diamonds that received the split uploads: committed solo in the reference
	var refSplitCommit []map[string]entry
	for _, d := range ref.dsplit {
		dm, err := ref.env.Commit(nil, "r1", d, model.IgnoreConflicts)
		if err != nil { // a diamond without any split cannot be committed
			refSplitCommit = append(refSplitCommit, nil)
			continue
		}
		e, err := entriesOf(ref.env, "r1", dm.BundleID)
		must(err)
		refSplitCommit = append(refSplitCommit, e)
	}
	refBlobs := ref.env.Blob.Snapshot()

	// ---- store-level monitor: a blob is only ever written with the bytes the solo runs wrote under that key
	var monMu sync.Mutex
	var monViol []string
	committedBefore := map[string]bool{} // metadata keys of bundles committed before the concurrent phase
	for k := range con.env.Meta.Snapshot() {
		if strings.HasPrefix(k, "bundles/") {
			committedBefore[k] = true
		}
	}
	con.env.W.OnEvent = func(w *memstore.World, e *memstore.Event) {
		if e.Store == "meta" && e.Landed && committedBefore[e.Key] {
			// write-once: nothing that runs here (uploads, downloads, label sets, commits, listings) may touch the
			// descriptor or file lists of a committed bundle
			monMu.Lock()
			if len(monViol) < 5 {
				monViol = append(monViol, fmt.Sprintf("metadata of a committed bundle written: %s %s by %s", e.Op, e.Key, e.Actor))
			}
			monMu.Unlock()
			return
		}
		if e.Store != "blob" || !e.Landed || (e.Op != "put" && e.Op != "putx") {
			return
		}
		want, ok := refBlobs[e.Key]
		if !ok || crc32.ChecksumIEEE(want) != e.Sum || len(want) != e.Size {
			monMu.Lock()
			if len(monViol) < 5 {
				monViol = append(monViol, fmt.Sprintf("blob %s… written by %s with %d bytes (crc %08x); the solo runs wrote %d bytes there (known key: %v)", e.Key[:12], e.Actor, e.Size, e.Sum, len(want), ok))
			}
			monMu.Unlock()
		}
	}

	// ---- concurrent run
	results := make([][]result, len(p.Ops))
	ids := make([]string, len(p.Ops))
	var wg sync.WaitGroup
	start := make(chan struct{})
	for i, o := range p.Ops {
		wg.Add(1)
		go func(i int, o opSpec) {
			defer wg.Done()
			a := memstore.NewActor(fmt.Sprintf("%s#%d", o.Op, i))
			if p.Delays {
				a.SetDelay(func() time.Duration { return time.Duration(rand.Intn(300)) * time.Microsecond })
			}
			fail := func(kind, sig, format string, args ...interface{}) {
				results[i] = append(results[i], result{kind, sig, fmt.Sprintf("op %d %s: ", i, o.Op) + fmt.Sprintf(format, args...)})
			}
			<-start
			switch o.Op {
			case "upload":
				con.mu.Lock()
				con.nsrc++
				src := con.env.MemConsumable(fmt.Sprint("src", con.nsrc), tree(o.Files))
				con.mu.Unlock()
				id, err := con.env.Upload(a, o.Repo, src.For(nil), coreh.UploadOpts{Leaf: p.Leaf, Concurrency: o.Conc})
				if err != nil {
					fail("operation-failed", "upload", "%v", err)
					return
				}
				ids[i] = id
			case "split-upload":
				con.mu.Lock()
				con.nsrc++
				src := con.env.MemConsumable(fmt.Sprint("src", con.nsrc), tree(o.Files))
				con.mu.Unlock()
				if _, err := con.env.SplitUpload(a, "r1", con.dsplit[o.Diamond], o.Split, src.For(nil), o.Conc); err != nil {
					fail("operation-failed", "split-upload", "%v", err)
				}
			case "download":
				dest := con.env.W.Store(fmt.Sprint("dest", i))
				if err := con.env.Publish(a, "r1", con.pre[o.Bundle], dest.For(nil), o.Conc); err != nil {
					fail("operation-failed", "download", "%v", err)
					return
				}
				if d := coreh.DiffTrees(coreh.WithoutMeta(coreh.StoreTree(dest)), con.preTrees[o.Bundle]); d != "" {
					fail("result-differs-from-solo", "download", "downloaded tree differs: %s", d)
				}
			case "label":
				if err := con.env.SetLabel(a, o.Repo, o.Label, con.pre[o.Bundle]); err != nil {
					fail("operation-failed", "label", "%v", err)
				}
			case "commit":
				d, err := con.env.Commit(a, "r2", con.dcommit[o.Diamond], model.IgnoreConflicts)
				if err != nil {
					fail("operation-failed", "commit", "%v", err)
					return
				}
				ids[i] = d.BundleID
			case "list":
				for k := 0; k < 4; k++ {
					bs, err := core.ListBundles("r1", con.env.Stores(a))
					if err != nil {
						fail("operation-failed", "list", "ListBundles: %v", err)
						return
					}
					seen := map[string]bool{}
					last := ""
					for _, b := range bs {
						if seen[b.ID] || b.ID < last {
							fail("result-differs-from-solo", "list", "ListBundles returned %s twice or out of order", b.ID)
							return
						}
						seen[b.ID], last = true, b.ID
					}
					for _, id := range con.pre {
						if !seen[id] {
							fail("result-differs-from-solo", "list", "ListBundles lacks the committed bundle %s", id)
							return
						}
					}
					if _, err := core.ListLabels("r1", con.env.Stores(a)); err != nil {
						fail("operation-failed", "list", "ListLabels: %v", err)
						return
					}
					if _, err := core.ListDiamonds("r1", con.env.Stores(a)); err != nil {
						fail("operation-failed", "list", "ListDiamonds: %v", err)
						return
					}
				}
			case "cafs-readers":
				fs, err := cafs.New(cafs.LeafSize(p.Leaf), cafs.Backend(con.env.Blob.For(a)), cafs.Logger(coreh.Nop), cafs.CacheSize(2*int(p.Leaf)), cafs.Prefetch(1))
				if err != nil {
					fail("operation-failed", "cafs-readers", "%v", err)
					return
				}
				var rw sync.WaitGroup
				errs := make([]string, o.Conc)
				for g := 0; g < o.Conc; g++ {
					rw.Add(1)
					go func(g int) {
						defer rw.Done()
						lr := rand.New(rand.NewSource(p.Seed + int64(i*100+g)))
						rd, err := fs.GetAt(context.Background(), con.big)
						if err != nil {
							errs[g] = err.Error()
							return
						}
						for k := 0; k < 30; k++ {
							off := lr.Intn(len(con.bigData))
							n := 1 + lr.Intn(2*int(p.Leaf))
							buf := make([]byte, n)
							m, err := rd.ReadAt(buf, int64(off))
							end := off + n
							if end > len(con.bigData) {
								end = len(con.bigData)
							}
							if (err != nil && err != io.EOF) || !bytes.Equal(buf[:m], con.bigData[off:end]) {
								errs[g] = fmt.Sprintf("ReadAt(off=%d, len=%d) = %d bytes, err=%v; expected %d bytes", off, n, m, err, end-off)
								return
							}
						}
					}(g)
				}
				rw.Wait()
				for _, e := range errs {
					if e != "" {
						fail("result-differs-from-solo", "cafs-readers", "%s", e)
					}
				}
			}
		}(i, o)
	}
	t0 := time.Now()
	close(start)
	wg.Wait()
	con.env.W.OnEvent = nil
	res.Stat("concurrent_wall_us", time.Since(t0).Microseconds())

	// ---- quiescent checks
	viol := func(r result) { res.Violate(r.kind, r.sig, "%s", r.msg) }
	failed := false
	for i := range p.Ops {
		for _, r := range results[i] {
			viol(r)
			failed = true
		}
	}
	for _, m := range monViol {
		if strings.HasPrefix(m, "metadata of a committed bundle") {
			res.Violate("committed-bundle-metadata-written", "meta-store", "%s", m)
		} else {
			res.Violate("blob-written-with-foreign-bytes", "blob-store", "%s", m)
		}
		failed = true
	}
	if !failed {
		labelVals := map[string]map[string]bool{}
		for i, o := range p.Ops {
			res.Stat("op_"+o.Op, 1)
			switch o.Op {
			case "upload", "commit":
				repo := o.Repo
				if o.Op == "commit" {
					repo = "r2"
				}
				got, err := entriesOf(con.env, repo, ids[i])
				if err != nil {
					res.Violate("result-unreadable", o.Op, "op %d %s: bundle %s: %v", i, o.Op, ids[i], err)
					continue
				}
				if d := sameEntries(exp[i].entries, got); d != "" {
					res.Violate("result-differs-from-solo", o.Op, "op %d %s: entries of bundle %s differ from the solo run: %s", i, o.Op, ids[i], d)
					continue
				}
				dest := con.env.W.Store(fmt.Sprint("check", i))
				if err := con.env.Publish(nil, repo, ids[i], dest.For(nil), 3); err != nil {
					res.Violate("result-unreadable", o.Op, "op %d %s: bundle %s does not download: %v", i, o.Op, ids[i], err)
					continue
				}
				if o.Op == "upload" {
					if d := coreh.DiffTrees(coreh.WithoutMeta(coreh.StoreTree(dest)), tree(o.Files)); d != "" {
						res.Violate("result-differs-from-solo", o.Op, "op %d upload: downloaded bundle differs from the uploaded tree: %s", i, d)
					}
				}
				res.Stat("bundles_verified", 1)
			case "label":
				if labelVals[o.Label] == nil {
					labelVals[o.Label] = map[string]bool{}
				}
				labelVals[o.Label][con.pre[o.Bundle]] = true
			}
		}
		for l, vals := range labelVals {
			got, err := con.env.GetLabel(nil, "r1", l)
			if err != nil || !vals[got] {
				res.Violate("result-differs-from-solo", "label", "label %s resolves to %q (err=%v), the values written were %v", l, got, err, keys(vals))
			}
		}
		// the diamonds that received concurrent split uploads now commit to what they commit to in the solo run
		for di, d := range con.dsplit {
			dm, err := con.env.Commit(nil, "r1", d, model.IgnoreConflicts)
			if refSplitCommit[di] == nil {
				continue
			}
			if err != nil {
				res.Violate("result-differs-from-solo", "split-upload", "diamond %d with concurrently uploaded splits does not commit: %v", di, err)
				continue
			}
			got, err := entriesOf(con.env, "r1", dm.BundleID)
			if err != nil {
				res.Violate("result-unreadable", "split-upload", "diamond %d: %v", di, err)
				continue
			}
			if diff := sameEntries(refSplitCommit[di], got); diff != "" {
				res.Violate("result-differs-from-solo", "split-upload", "diamond %d: the commit of concurrently uploaded splits differs from the solo run: %s", di, diff)
			}
			res.Stat("split_diamonds_verified", 1)
		}
		// blob store: same keys and bytes as the solo runs
		conBlobs := con.env.Blob.Snapshot()
		for k, v := range conBlobs {
			if w, ok := refBlobs[k]; !ok || !bytes.Equal(v, w) {
				res.Violate("blob-differs-from-solo", "blob-store", "blob %s… holds %d bytes, the solo runs left %d bytes (present: %v)", k[:12], len(v), len(w), ok)
				break
			}
		}
		for k := range refBlobs {
			if _, ok := conBlobs[k]; !ok {
				res.Violate("blob-differs-from-solo", "blob-store", "blob %s… of the solo runs is missing after the concurrent run", k[:12])
				break
			}
		}
		res.Stat("blobs_compared", int64(len(conBlobs)))
	}
	// interleaving signature: the sequence of actors in the store log
	var sb strings.Builder
	last := ""
	switches := 0
	for _, e := range con.env.W.Log(0) {
		if e.Actor != last && e.Actor != "-" {
			switches++
			last = e.Actor
			fmt.Fprintf(&sb, "%s,", e.Actor)
		}
	}
	res.Stat("actor_switches_in_store_log", int64(switches))
	res.Seen("interleavings", fmt.Sprintf("%08x", crc32.ChecksumIEEE([]byte(sb.String()))))
	res.Nontrivial = switches > len(p.Ops)
	var opn []string
	for _, o := range p.Ops {
		opn = append(opn, o.Op)
	}
	res.Sample = map[string]interface{}{"gomaxprocs": p.Procs, "delays": p.Delays, "ops": opn, "actor_switches": switches}
}

func keys(m map[string]bool) []string {
	var out []string
	for k := range m {
		out = append(out, k)
	}
	sort.Strings(out)
	return out
}

func TestC15(t *testing.T) {
	drv.Main(t, drv.Driver{ID: "C15", Gen: gen15, Run: run15, CaseTimeout: 60 * time.Minute})
}
