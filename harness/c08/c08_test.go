package c08

import (
	"bytes"
	"errors"
	"fmt"
	"math/rand"
	"sort"
	"strings"
	"testing"
	"time"

	"github.com/oneconcern/datamon/pkg/core"
	"github.com/oneconcern/datamon/pkg/core/status"

	"verifharness/coreh"
	"verifharness/drv"
	"verifharness/gen"
	"verifharness/memstore"
)

// C08 — labels resolve to the bundle most recently assigned to them.
//
// Oracle: reference map (repo, name) -> bundle ID. After every step: get of every name ever used == map
// (or not found); ListLabels(repo) == the live labels of that repo, once each, with the right IDs;
// WithLabelPrefix(p) == those with prefix p; a set/delete changes no store object other than that label's
// key. Acceptance clause: any name for which UploadDescriptor returned nil must afterwards be listed and
// resolved.

type step struct {
	Op   string `json:"op"` // set | delete
	Repo string `json:"repo"`
	Name string `json:"name"`
	B    int    `json:"bundle"` // index into the repo's bundles
	// How a set is made: "" a fresh Label object (what the CLI does); "reuse" the caller keeps one Label object per
	// name and points it at bundle after bundle; "get-set" the caller resolves the label into an object and then
	// moves that same object to the bundle
	How string `json:"how,omitempty"`
}

type params struct {
	Steps   []step `json:"steps"`
	NameCls string `json:"name_class"`
	DelNil  bool   `json:"delete_missing_nil"`
	Seed    int64  `json:"seed"`
}

var repos = []string{"a", "ab", "a-b"}

var documented = []string{"prod", "latest", "v1", "rc-1", "release_2", "é", "日本", "l0", "l", "la", "lab", "x‿y", "A", "a", "ab"}
var dotted = []string{"v1.0.0", "1.2.3", "v2.0", "a.b", "1.0"}
var hostile = []string{"a/b", "/", "a/", "/a", "..", ".", "a b", " lead", "label.yaml", "a#1", "a\tb", "x/y/z", "é/ü", strings.Repeat("n", 300), "á", "a:b", "*", "?", "a\nb", "label.yaml/x"}

// special characters that a key scheme, a listing pipeline or a YAML document may treat specially
var special = []string{"#", "@", "%", "+", "=", ",", ";", "!", "~", "$", "&", "'", "\"", "(", "[", "{", "|", "^", "`", "<", "\\", "#1#2", "%2F", "--", "__"}

func gen08(seed int64, tier string) []drv.Case {
	r := gen.Rand(seed, "c08")
	n := 40
	if tier == "thorough" {
		n = 1500
	}
	var cs []drv.Case
	for i := 0; i < n; i++ {
		cls := []string{"documented", "documented+dotted", "hostile-mix"}[i%3]
		pool := append([]string(nil), documented...)
		if cls != "documented" {
			pool = append(pool, dotted...)
		}
		if cls == "hostile-mix" {
			pool = append(pool, hostile...)
		}
		// a working set of names for this history
		var names []string
		for j := 0; j < 3+r.Intn(8); j++ {
			names = append(names, pool[r.Intn(len(pool))])
		}
		if cls == "hostile-mix" {
			// every hostile name (and generated names around each special character) is used by some history of the run
			k := i / 3
			names = append(names, hostile[k%len(hostile)], special[k%len(special)]+fmt.Sprint(r.Intn(10000)), fmt.Sprint("n", r.Intn(100))+special[(k/2)%len(special)]+"x")
		}
		steps := 30 + r.Intn(60)
		if tier == "thorough" {
			steps = 30 + r.Intn(170)
		}
		var ss []step
		for j := 0; j < steps; j++ {
			op := "set"
			if r.Intn(4) == 0 {
				op = "delete"
			}
			ss = append(ss, step{Op: op, Repo: repos[r.Intn(len(repos))], Name: names[r.Intn(len(names))], B: r.Intn(3), How: []string{"", "", "reuse", "get-set"}[r.Intn(4)]})
		}
		p := params{Steps: ss, NameCls: cls, DelNil: r.Intn(2) == 0, Seed: r.Int63()}
		cs = append(cs, drv.Case{ID: fmt.Sprintf("%s-%d", cls, i), Class: cls, Params: drv.MustJSON(p)})
	}
	return cs
}

func nameClass(n string) string {
	switch {
	case n == "":
		return "empty"
	case strings.Contains(n, "/"):
		return "contains-slash"
	case n == "." || n == "..":
		return "dots"
	case strings.ContainsAny(n, " \t\n"):
		return "whitespace"
	case strings.Contains(n, "."):
		return "dotted"
	case len(n) > 200:
		return "long"
	}
	return "plain"
}

func snapshot(e *coreh.Env) map[string][]byte {
	m := map[string][]byte{}
	for k, v := range e.Meta.Snapshot() {
		m["meta:"+k] = v
	}
	for k, v := range e.VMeta.Snapshot() {
		m["vmeta:"+k] = v
	}
	return m
}

func run08(c drv.Case, res *drv.Result) {
	var p params
	drv.Params(c, &p)
	env := coreh.NewEnv(memstore.Config{DeleteMissingNil: p.DelNil})
	empty := env.MemConsumable("empty", coreh.Tree{"f": []byte("x")})
	bundles := map[string][]string{}
	for _, rp := range repos {
		if err := env.CreateRepo(nil, rp); err != nil {
			panic(err)
		}
		for i := 0; i < 3; i++ {
			id, err := env.Upload(nil, rp, empty.For(nil), coreh.UploadOpts{})
			if err != nil {
				panic(err)
			}
			bundles[rp] = append(bundles[rp], id)
		}
	}
	model := map[string]map[string]string{} // repo -> name -> bundle
	used := map[string]map[string]bool{}
	for _, rp := range repos {
		model[rp], used[rp] = map[string]string{}, map[string]bool{}
	}
	st := env.Stores(nil)
	r := rand.New(rand.NewSource(p.Seed))

	verify := func(i int, s step) bool {
		ncls := nameClass(s.Name)
		for _, rp := range repos {
			// listing
			ls, err := core.ListLabels(rp, st, core.BatchSize([]int{1, 2, 1024}[r.Intn(3)]))
			res.Stat("listings_compared", 1)
			if err != nil {
				res.Violate("listing-fails-after-accepted-name", ncls, "step %d (%s %q in %s): ListLabels(%s) fails: %v; live labels %v", i, s.Op, s.Name, s.Repo, rp, err, keys(model[rp]))
				return false
			}
			got := map[string]string{}
			for _, l := range ls {
				if _, dup := got[l.Name]; dup {
					res.Violate("listing-duplicate", ncls, "step %d: ListLabels(%s) lists %q twice", i, rp, l.Name)
					return false
				}
				got[l.Name] = l.BundleID
			}
			if fmtMap(got) != fmtMap(model[rp]) {
				res.Violate("listing-mismatch", ncls, "step %d (%s %q in %s): ListLabels(%s) = %s, expected %s", i, s.Op, s.Name, s.Repo, rp, fmtMap(got), fmtMap(model[rp]))
				return false
			}
			// the same listing with one failing store call (every few steps): a listing that still reports success must
			// be complete — a label may not silently drop out because reading it failed once; and a get that still
			// succeeds must resolve correctly
			if i%4 == 3 && len(model[rp]) > 0 {
				fa := memstore.NewActor("faulted-lister")
				k := 1 + r.Intn(3+2*len(model[rp]))
				kind := ""
				fa.SetFault(func(c memstore.Call) error {
					if c.Index == k {
						kind = c.Store + "." + c.Op
						return memstore.ErrInjected
					}
					return nil
				})
				fls, ferr := core.ListLabels(rp, env.Stores(fa), core.BatchSize([]int{1, 2, 1024}[r.Intn(3)]))
				res.Stat("listings_under_a_store_fault", 1)
				if ferr == nil && kind != "" {
					fgot := map[string]string{}
					for _, l := range fls {
						fgot[l.Name] = l.BundleID
					}
					if fmtMap(fgot) != fmtMap(model[rp]) {
						res.Violate("listing-mismatch", "under-a-swallowed-fault|"+kind, "step %d: ListLabels(%s) reported success although its store call %d (%s) failed, and returned %s, expected %s", i, rp, k, kind, fmtMap(fgot), fmtMap(model[rp]))
						return false
					}
				}
				for nm, want := range model[rp] {
					ga := memstore.NewActor("faulted-getter")
					gk := 1 + r.Intn(3)
					ga.SetFault(func(c memstore.Call) error {
						if c.Index == gk {
							return memstore.ErrInjected
						}
						return nil
					})
					id, gerr := env.GetLabel(ga, rp, nm)
					res.Stat("gets_under_a_store_fault", 1)
					if gerr == nil && id != want {
						res.Violate("get-mismatch", "under-a-swallowed-fault", "step %d: label %q in %s resolves to %q under a store fault, last set to %q", i, nm, rp, id, want)
						return false
					}
					if gerr != nil && errors.Is(gerr, status.ErrNotFound) && ga.FaultsInjected() > 0 {
						res.Violate("label-reported-missing-on-a-store-fault", "get", "step %d: label %q in %s exists, but a get whose store call %d failed reports it as not found (%v): a transient fault must not look like a deleted label", i, nm, rp, gk, gerr)
						return false
					}
					break
				}
			}
			// get of every name ever used
			for nm := range used[rp] {
				id, err := env.GetLabel(nil, rp, nm)
				res.Stat("gets_compared", 1)
				want, live := model[rp][nm]
				if live && (err != nil || id != want) {
					res.Violate("get-mismatch", nameClass(nm), "step %d: label %q in %s resolves to %q (err %v), last set to %q", i, nm, rp, id, err, want)
					return false
				}
				if !live && err == nil {
					res.Violate("get-of-deleted-label", nameClass(nm), "step %d: deleted/never-set label %q in %s resolves to %q", i, nm, rp, id)
					return false
				}
			}
		}
		// prefix-filtered listing on the touched repo
		for _, pre := range []string{"l", "la", "v", "a", "é", s.Name} {
			if strings.Contains(pre, "/") || pre == "" {
				continue
			}
			ls, err := core.ListLabels(s.Repo, st, core.WithLabelPrefix(pre))
			if err != nil {
				res.Violate("prefix-listing-fails", nameClass(pre), "step %d: ListLabels(%s, prefix %q) fails: %v", i, s.Repo, pre, err)
				return false
			}
			got := map[string]string{}
			for _, l := range ls {
				got[l.Name] = l.BundleID
			}
			want := map[string]string{}
			for nm, id := range model[s.Repo] {
				if strings.HasPrefix(nm, pre) {
					want[nm] = id
				}
			}
			res.Stat("prefix_listings_compared", 1)
			if fmtMap(got) != fmtMap(want) {
				res.Violate("prefix-listing-mismatch", nameClass(pre), "step %d: ListLabels(%s, prefix %q) = %s, expected %s", i, s.Repo, pre, fmtMap(got), fmtMap(want))
				return false
			}
		}
		return true
	}

	kept := map[string]*core.Label{}
	for i, s := range p.Steps {
		before := snapshot(env)
		used[s.Repo][s.Name] = true
		var err error
		switch s.Op {
		case "set":
			switch s.How {
			case "reuse":
				l := kept[s.Repo+"/"+s.Name]
				if l == nil {
					l = coreh.NewLabel(s.Name)
					kept[s.Repo+"/"+s.Name] = l
				}
				err = env.SetLabelObject(nil, s.Repo, bundles[s.Repo][s.B], l)
				res.Stat("sets_through_a_kept_label_object", 1)
			case "get-set":
				l := coreh.NewLabel(s.Name)
				if _, live := model[s.Repo][s.Name]; live {
					if gerr := env.GetLabelObject(nil, s.Repo, l); gerr != nil {
						res.Violate("get-fails", nameClass(s.Name), "step %d: resolving live label %q in %s fails: %v", i, s.Name, s.Repo, gerr)
						return
					}
					res.Stat("sets_after_get_on_the_same_object", 1)
				}
				err = env.SetLabelObject(nil, s.Repo, bundles[s.Repo][s.B], l)
			default:
				err = env.SetLabel(nil, s.Repo, s.Name, bundles[s.Repo][s.B])
			}
			if err == nil {
				model[s.Repo][s.Name] = bundles[s.Repo][s.B]
				res.Stat("sets_accepted", 1)
			} else {
				res.Stat("sets_refused", 1)
			}
		case "delete":
			err = core.DeleteLabel(s.Repo, st, s.Name)
			if _, live := model[s.Repo][s.Name]; live && err != nil {
				res.Violate("delete-failed", nameClass(s.Name), "step %d: DeleteLabel(%s, %q) of a live label failed: %v", i, s.Repo, s.Name, err)
				return
			}
			delete(model[s.Repo], s.Name)
			res.Stat("deletes", 1)
		}
		// store diff: only this label's key may change
		after := snapshot(env)
		allowed := "vmeta:labels/" + s.Repo + "/" + s.Name + "/label.yaml"
		for k, v := range after {
			if ov, ok := before[k]; (!ok || !bytes.Equal(ov, v)) && k != allowed {
				res.Violate("label-op-touched-other-object", s.Op, "step %d: %s %q in %s created/changed store object %s", i, s.Op, s.Name, s.Repo, k)
				return
			}
		}
		for k := range before {
			if _, ok := after[k]; !ok && k != allowed {
				res.Violate("label-op-touched-other-object", s.Op, "step %d: %s %q in %s removed store object %s", i, s.Op, s.Name, s.Repo, k)
				return
			}
		}
		if !verify(i, s) {
			return
		}
	}
	res.Nontrivial = true
	res.Canon = string(c.Params)
	res.Seen("name_class", p.NameCls)
	var nms []string
	for _, rp := range repos {
		for n := range used[rp] {
			nms = append(nms, n)
		}
	}
	sort.Strings(nms)
	res.Sample = map[string]interface{}{"steps": len(p.Steps), "first_steps": p.Steps[:4], "names_used": clip(nms), "delete_missing_nil": p.DelNil}
}

func clip(xs []string) []string {
	var out []string
	for i, x := range xs {
		if i >= 10 {
			break
		}
		if len(x) > 30 {
			x = x[:30] + "…"
		}
		out = append(out, x)
	}
	return out
}

func keys(m map[string]string) []string {
	var ks []string
	for k := range m {
		ks = append(ks, k)
	}
	sort.Strings(ks)
	return clip(ks)
}

func fmtMap(m map[string]string) string {
	var ks []string
	for k, v := range m {
		if len(k) > 40 {
			k = k[:40] + "…"
		}
		ks = append(ks, fmt.Sprintf("%q=%s", k, v[len(v)-6:]))
	}
	sort.Strings(ks)
	return "{" + strings.Join(ks, " ") + "}"
}

func TestC08(t *testing.T) {
	drv.Main(t, drv.Driver{ID: "C08", Gen: gen08, Run: run08, CaseTimeout: 15 * time.Minute})
}
