package c09

import (
	"bytes"
	"fmt"
	"math/rand"
	"sort"
	"strings"
	"sync"
	"testing"
	"time"

	context2 "github.com/oneconcern/datamon/pkg/context"
	"github.com/oneconcern/datamon/pkg/core"
	"github.com/oneconcern/datamon/pkg/model"

	"verifharness/cafsh"
	"verifharness/coreh"
	"verifharness/drv"
	"verifharness/gen"
	"verifharness/memstore"
)

// C09 — repository operations affect exactly their own repository.

type params struct {
	Op       string `json:"op"` // create-gated | create-stress | delete | rename | delete-files
	K        int    `json:"creators,omitempty"`
	Order    string `json:"order,omitempty"` // create-gated: which creator reaches the store first
	DelNil   bool   `json:"delete_missing_nil"`
	Target   string `json:"target"`
	ZeroFile bool   `json:"zero_file_bundle"`
	Big      bool   `json:"bundle_with_1001_files"`
	Seed     int64  `json:"seed"`
	// Fault in (0,1]: one store call of the operation (at that fraction of its calls, counted by a dry run on a clone)
	// fails; the operation continues along its error path
	Fault float64 `json:"fault_at_fraction,omitempty"`
	// Crash in (0,1] (DeleteRepo only): the client dies at that fraction of the operation's store calls (before or after
	// the call lands), then a fresh client runs DeleteRepo again; when that second run reports success the repository
	// must be gone completely, as after an undisturbed delete
	Crash      float64 `json:"crash_at_fraction,omitempty"`
	CrashAfter bool    `json:"crash_after_the_call_landed,omitempty"`
}

var repoNames = []string{"a", "ab", "a-b", "b"}

func gen09(seed int64, tier string) []drv.Case {
	r := gen.Rand(seed, "c09")
	var cs []drv.Case
	add := func(p params) {
		p.Seed = r.Int63()
		cs = append(cs, drv.Case{ID: fmt.Sprintf("%s-%d", p.Op, len(cs)), Class: p.Op, Params: drv.MustJSON(p)})
	}
	for _, o := range []string{"A-parked-B-runs", "B-parked-A-runs", "both-parked-release-A-first", "both-parked-release-B-first"} {
		add(params{Op: "create-gated", Order: o})
	}
	n := 8
	if tier == "thorough" {
		n = 120
	}
	for i := 0; i < n; i++ {
		add(params{Op: "create-stress", K: 2 + r.Intn(15)})
	}
	m := 48
	if tier == "thorough" {
		m = 1100
	}
	nf := 24
	if tier == "thorough" {
		nf = 600
	}
	for i := 0; i < nf; i++ {
		op := []string{"rename", "delete", "delete-files", "rename"}[i%4]
		cs = append(cs, drv.Case{ID: fmt.Sprintf("%s-fault-%d", op, len(cs)), Class: op + "-fault", Params: drv.MustJSON(params{Op: op, DelNil: r.Intn(2) == 0,
			Target: repoNames[r.Intn(len(repoNames))], Seed: r.Int63(), Fault: (float64(i/4%6) + r.Float64()) / 6.0})})
	}
	ncr := 16
	if tier == "thorough" {
		ncr = 400
	}
	for i := 0; i < ncr; i++ {
		cs = append(cs, drv.Case{ID: fmt.Sprintf("delete-crash-rerun-%d", len(cs)), Class: "delete-crash-rerun", Params: drv.MustJSON(params{Op: "delete", DelNil: r.Intn(2) == 0,
			Target: repoNames[r.Intn(len(repoNames))], Seed: r.Int63(), Crash: (float64(i%8) + r.Float64()) / 8.0, CrashAfter: r.Intn(2) == 0})})
	}
	for i := 0; i < m; i++ {
		op := []string{"delete", "rename", "delete-files"}[i%3]
		add(params{Op: op, DelNil: r.Intn(2) == 0, Target: repoNames[r.Intn(len(repoNames))], ZeroFile: r.Intn(3) == 0,
			Big: (tier == "thorough" && (i%40 == 0 || i%40 == 2 || i%40 == 19)) || (tier != "thorough" && (i == 4 || i == 5 || i == 6))})
	}
	return cs
}

type bundleInfo struct {
	id      string
	entries map[string]string // path -> hash
	tree    coreh.Tree
}

func snap(e *coreh.Env) map[string][]byte {
	m := map[string][]byte{}
	for k, v := range e.Meta.Snapshot() {
		m["meta:"+k] = v
	}
	for k, v := range e.VMeta.Snapshot() {
		m["vmeta:"+k] = v
	}
	for k, v := range e.Blob.Snapshot() {
		m["blob:"+k] = v
	}
	return m
}

// owner returns the repo a metadata key belongs to ("" for blobs and foreign keys).
func owner(k string) string {
	parts := strings.Split(k, ":")
	if parts[0] == "blob" {
		return ""
	}
	cs := strings.Split(parts[1], "/")
	if len(cs) >= 2 && (cs[0] == "repos" || cs[0] == "bundles" || cs[0] == "labels" || cs[0] == "diamonds") {
		return cs[1]
	}
	return ""
}

func run09(c drv.Case, res *drv.Result) {
	var p params
	drv.Params(c, &p)
	cafsh.InstallWriteProgressMonitor()
	r := rand.New(rand.NewSource(p.Seed))
	res.Canon = string(c.Params)
	res.Nontrivial = true
	switch p.Op {
	case "create-gated":
		env := coreh.NewEnv(memstore.Config{})
		a, b := memstore.NewActor("A"), memstore.NewActor("B")
		desc := func(who string) model.RepoDescriptor {
			return model.RepoDescriptor{Name: "shared", Description: "created by " + who, Contributor: model.Contributor{Name: who, Email: who + "@example.com"}}
		}
		var errA, errB error
		doneA, doneB := make(chan struct{}), make(chan struct{})
		ga, gb := a.GateAt(1), b.GateAt(1)
		runA := func() { errA = core.CreateRepo(desc("A"), env.Stores(a)); close(doneA) }
		runB := func() { errB = core.CreateRepo(desc("B"), env.Stores(b)); close(doneB) }
		switch p.Order {
		case "A-parked-B-runs":
			gb.Release()
			go runA()
			<-ga.Parked()
			go runB()
			<-doneB
			ga.Release()
			<-doneA
		case "B-parked-A-runs":
			ga.Release()
			go runB()
			<-gb.Parked()
			go runA()
			<-doneA
			gb.Release()
			<-doneB
		default:
			go runA()
			go runB()
			<-ga.Parked()
			<-gb.Parked()
			if p.Order == "both-parked-release-A-first" {
				ga.Release()
				<-doneA
				gb.Release()
				<-doneB
			} else {
				gb.Release()
				<-doneB
				ga.Release()
				<-doneA
			}
		}
		res.Stat("gated_interleavings", 1)
		res.Seen("interleaving", p.Order)
		wins := 0
		winner := ""
		if errA == nil {
			wins++
			winner = "A"
		}
		if errB == nil {
			wins++
			winner = "B"
		}
		if wins != 1 {
			res.Violate("create-winners", fmt.Sprint(wins), "two creators of one repository name, interleaving %s: %d succeeded (A: %v, B: %v)", p.Order, wins, errA, errB)
			return
		}
		rd, err := core.GetRepo("shared", env.Stores(nil))
		if err != nil || rd.Description != "created by "+winner {
			res.Violate("create-descriptor", "not-winners", "interleaving %s: %s won, stored descriptor says %+v (%v)", p.Order, winner, rd, err)
		}
		res.Sample = map[string]interface{}{"interleaving": p.Order, "winner": winner}
		return
	case "create-stress":
		env := coreh.NewEnv(memstore.Config{})
		var wg sync.WaitGroup
		errs := make([]error, p.K)
		start := make(chan struct{})
		for g := 0; g < p.K; g++ {
			wg.Add(1)
			go func(g int) {
				defer wg.Done()
				a := memstore.NewActor(fmt.Sprint("c", g)).SetDelay(func() time.Duration { return time.Duration(rand.Intn(200)) * time.Microsecond })
				<-start
				errs[g] = core.CreateRepo(model.RepoDescriptor{Name: "shared", Description: fmt.Sprint("created by ", g)}, env.Stores(a))
			}(g)
		}
		close(start)
		wg.Wait()
		var winners []int
		for g, e := range errs {
			if e == nil {
				winners = append(winners, g)
			}
		}
		res.Stat("concurrent_create_races", 1)
		if len(winners) != 1 {
			res.Violate("create-winners", fmt.Sprint(min(len(winners), 2)), "%d concurrent creators: %d succeeded", p.K, len(winners))
			return
		}
		rd, err := core.GetRepo("shared", env.Stores(nil))
		if err != nil || rd.Description != fmt.Sprint("created by ", winners[0]) {
			res.Violate("create-descriptor", "not-winners", "creator %d won, stored descriptor says %+v (%v)", winners[0], rd, err)
		}
		res.Sample = map[string]interface{}{"creators": p.K, "winner": winners[0]}
		return
	}

	// ---- delete / rename / delete-files on a populated context
	env := coreh.NewEnv(memstore.Config{DeleteMissingNil: p.DelNil})
	must := func(err error) {
		if err != nil {
			panic(fmt.Sprintf("set-up failed: %v", err))
		}
	}
	shared := [][]byte{gen.Bytes(p.Seed, "s0", 100), gen.Bytes(p.Seed, "s1", 5000), gen.Bytes(p.Seed, "s2", 1), {}}
	info := map[string][]bundleInfo{}
	labels := map[string]map[string]string{}
	nsrc := 0
	for _, rp := range repoNames {
		must(env.CreateRepo(nil, rp))
		labels[rp] = map[string]string{}
		nb := 1 + r.Intn(3)
		for j := 0; j < nb; j++ {
			t := coreh.Tree{}
			nf := 1 + r.Intn(5)
			if p.ZeroFile && j == 0 && rp == p.Target {
				nf = 0
			}
			for f := 0; f < nf; f++ {
				content := shared[r.Intn(len(shared))]
				if r.Intn(3) == 0 {
					content = gen.Bytes(p.Seed, fmt.Sprintf("%s-%d-%d", rp, j, f), r.Intn(9000))
				}
				t[fmt.Sprintf("%s/f%d", []string{"d", "e", "common"}[r.Intn(3)], f)] = content
			}
			if p.Big && j == 1 && rp == p.Target {
				nbig := 1001
				if p.Op == "delete-files" {
					nbig = 2001 + r.Intn(200) // three file lists
				}
				t = coreh.GenTree(r, p.Seed, nbig, coreh.TreeOpt{Tiny: true}).Tree()
				t["common/f0"] = shared[0]
			}
			nsrc++
			id, err := env.Upload(nil, rp, env.MemConsumable(fmt.Sprint("src", nsrc), t).For(nil), coreh.UploadOpts{Leaf: 4096, Concurrency: 4})
			must(err)
			_, ents, err := env.Entries(nil, rp, id)
			must(err)
			bi := bundleInfo{id: id, entries: map[string]string{}, tree: t}
			for _, e := range ents {
				bi.entries[e.NameWithPath] = e.Hash
			}
			info[rp] = append(info[rp], bi)
			if r.Intn(2) == 0 {
				name := fmt.Sprintf("l%d", j)
				must(env.SetLabel(nil, rp, name, id))
				labels[rp][name] = id
			}
		}
	}
	before := snap(env)
	actor := memstore.NewActor("operator").SetBudget(50*len(before) + 10000)
	st := env.Stores(actor)
	target := p.Target
	res.Seen("operation", p.Op)
	res.Seen("delete_missing", map[bool]string{true: "nil", false: "error"}[p.DelNil])

	var opErr error
	affected := map[string]bool{target: true}
	var delPaths []string
	faultDesc := ""
	run := func(f func(st context2.Stores) error) error {
		if p.Fault > 0 {
			dry := env.Clone()
			da := memstore.NewActor("dry")
			if err := f(dry.Stores(da)); err == nil {
				n, _ := da.Calls()
				k := 1 + int(p.Fault*float64(n))
				if k > n {
					k = n
				}
				actor.SetFault(func(c memstore.Call) error {
					if c.Index == k {
						faultDesc = fmt.Sprintf("store call %d of %d (%s.%s %s) fails", k, n, c.Store, c.Op, c.Key)
						res.Seen("faulted_call_kinds", c.Store+"."+c.Op)
						return memstore.ErrInjected
					}
					return nil
				})
			}
		}
		if p.Crash > 0 {
			dry := env.Clone()
			da := memstore.NewActor("dry")
			if err := f(dry.Stores(da)); err != nil {
				return err
			}
			_, n := da.Calls() // mutating calls
			if n == 0 {
				return f(st)
			}
			k := 1 + int(p.Crash*float64(n))
			if k > n {
				k = n
			}
			victim := memstore.NewActor("operator-that-dies").CrashAt(k, p.CrashAfter)
			done := make(chan error, 1)
			go func() { done <- f(env.Stores(victim)) }()
			select {
			case <-victim.Dead():
				res.Stat("deletes_interrupted_by_a_crash", 1)
				op, key := victim.CrashPoint()
				res.Seen("crash_point_kinds", op+" "+strings.SplitN(key, "/", 2)[0])
			case err := <-done:
				return err // fewer calls than the crash point
			}
			time.Sleep(5 * time.Millisecond)
			err := f(st) // the re-run, by a fresh client
			if err != nil {
				res.Stat("reruns_after_a_crash_refused", 1)
				faultDesc = "the client died inside the delete and the re-run was refused: " + err.Error() // leftovers are then not judged
				return nil
			}
			res.Stat("reruns_after_a_crash_reporting_success", 1)
			return nil
		}
		return f(st)
	}
	switch p.Op {
	case "delete":
		opErr = run(func(st context2.Stores) error { return core.DeleteRepo(target, st) })
	case "rename":
		affected["renamed"] = true
		opErr = run(func(st context2.Stores) error { return core.RenameRepo(target, "renamed", st) })
	case "delete-files":
		seen := map[string]bool{}
		for _, bi := range info[target] {
			for pth := range bi.entries {
				if !seen[pth] && r.Intn(3) == 0 && len(delPaths) < 20 {
					delPaths = append(delPaths, pth)
				}
				seen[pth] = true
			}
		}
		// for every bundle spread over several file lists: at least one path of each stored file list
		for _, bi := range info[target] {
			for idx := 0; ; idx++ {
				raw, ok := env.Meta.RawGet(model.GetArchivePathToBundleFileList(target, bi.id, uint64(idx)))
				if !ok {
					break
				}
				if idx == 0 {
					if _, more := env.Meta.RawGet(model.GetArchivePathToBundleFileList(target, bi.id, 1)); !more {
						break
					}
				}
				var names []string
				for _, ln := range strings.Split(string(raw), "\n") {
					ln = strings.TrimSpace(ln)
					if strings.HasPrefix(ln, "name:") || strings.HasPrefix(ln, "- name:") {
						names = append(names, strings.Trim(strings.TrimSpace(ln[strings.Index(ln, "name:")+5:]), `"'`))
					}
				}
				if len(names) > 0 {
					for k := 0; k < 2; k++ {
						pth := names[r.Intn(len(names))]
						if _, in := bi.entries[pth]; in && !seen["!"+pth] {
							seen["!"+pth] = true
							delPaths = append(delPaths, pth)
							res.Stat("paths_deleted_from_multi_list_bundles", 1)
						}
					}
				}
			}
		}
		delPaths = append(delPaths, "not/in/any/bundle")
		opErr = run(func(st context2.Stores) error { return core.DeleteEntriesFromRepo(target, st, delPaths) })
	}
	calls, _ := actor.Calls()
	res.Stat("store_calls_of_operations", int64(calls))
	cfg := fmt.Sprintf("delete-missing-%s|zero-file-bundle=%v", map[bool]string{true: "nil", false: "error"}[p.DelNil], p.ZeroFile)
	if actor.OverBudget() {
		res.Violate("operation-does-not-terminate", p.Op+"|"+cfg, "%s(%s) issued more than %d store calls on a context of %d objects (aborted by the store-call budget); error returned: %v", p.Op, target, 50*len(before)+10000, len(before), opErr)
		return
	}
	if opErr != nil && faultDesc != "" {
		// the operation reported the failure: nothing outside its repository may have changed, and no bundle may be lost
		res.Stat("operations_failing_on_injected_fault", 1)
		after := snap(env)
		for k, v := range before {
			if affected[owner(k)] {
				continue
			}
			if nv, ok := after[k]; !ok || !bytes.Equal(v, nv) {
				res.Violate("foreign-object-changed-by-failed-operation", p.Op, "%s(%s) failed (%s) and changed or removed %s, which does not belong to %s", p.Op, target, faultDesc, k, target)
				return
			}
		}
		if p.Op == "rename" || p.Op == "delete-files" {
			rm := map[string]bool{}
			for _, d := range delPaths {
				rm[d] = true
			}
			for _, bi := range info[target] {
				okSomewhere := false
				for _, name := range []string{target, "renamed"} {
					_, ents, err := env.Entries(nil, name, bi.id)
					if err != nil {
						continue
					}
					good := true
					got := map[string]bool{}
					for _, e := range ents {
						got[e.NameWithPath] = true
						if h, in := bi.entries[e.NameWithPath]; !in || h != e.Hash {
							good = false
						}
					}
					for pth := range bi.entries {
						if !got[pth] && !rm[pth] {
							good = false
						}
					}
					if good {
						okSomewhere = true
					}
				}
				if !okSomewhere {
					res.Violate("bundle-lost-by-failed-operation", p.Op, "%s(%s) failed (%s: %v) and bundle %s is readable neither under %s nor under the new name", p.Op, target, faultDesc, opErr, bi.id, target)
					return
				}
			}
		}
		res.Sample = map[string]interface{}{"op": p.Op, "target": target, "fault": faultDesc, "result": fmt.Sprint(opErr)}
		return
	}
	if opErr != nil {
		res.Violate("operation-failed", p.Op+"|"+cfg, "%s(%s) failed: %v", p.Op, target, opErr)
		return
	}
	if faultDesc != "" {
		res.Stat("operations_succeeding_despite_fault", 1)
	}
	after := snap(env)
	// ---- store diff: nothing outside the affected repositories changes; blobs untouched
	for k, v := range before {
		if affected[owner(k)] {
			continue
		}
		nv, ok := after[k]
		if !ok {
			res.Violate("foreign-object-removed", p.Op+"|"+strings.SplitN(k, "/", 2)[0], "%s(%s) removed %s, which does not belong to %s", p.Op, target, k, target)
			return
		}
		if !bytes.Equal(v, nv) {
			res.Violate("foreign-object-changed", p.Op, "%s(%s) changed %s", p.Op, target, k)
			return
		}
	}
	for k := range after {
		if _, ok := before[k]; !ok && !affected[owner(k)] {
			res.Violate("foreign-object-created", p.Op, "%s(%s) created %s", p.Op, target, k)
			return
		}
	}
	obs := env.Stores(nil)
	listIDs := func(repo string) ([]string, error) {
		bs, err := core.ListBundles(repo, obs)
		var ids []string
		for _, b := range bs {
			ids = append(ids, b.ID)
		}
		sort.Strings(ids)
		return ids, err
	}
	wantIDs := func(repo string) []string {
		var ids []string
		for _, bi := range info[repo] {
			ids = append(ids, bi.id)
		}
		sort.Strings(ids)
		return ids
	}
	checkRepo := func(name string, bis []bundleInfo, lbls map[string]string, removed map[string]bool) bool {
		ids, err := listIDs(name)
		var w []string
		for _, bi := range bis {
			w = append(w, bi.id)
		}
		sort.Strings(w)
		if err != nil || strings.Join(ids, ",") != strings.Join(w, ",") {
			res.Violate("bundles-differ", p.Op, "after %s(%s): repository %s lists bundles %v (err %v), expected %v", p.Op, target, name, ids, err, w)
			return false
		}
		for _, bi := range bis {
			_, ents, err := env.Entries(nil, name, bi.id)
			if err != nil {
				res.Violate("bundle-unreadable", p.Op, "after %s(%s): bundle %s of %s: %v", p.Op, target, bi.id, name, err)
				return false
			}
			got := map[string]string{}
			for _, e := range ents {
				got[e.NameWithPath] = e.Hash
			}
			want := map[string]string{}
			wantTree := coreh.Tree{}
			for pth, h := range bi.entries {
				if !removed[pth] {
					want[pth] = h
					wantTree[pth] = bi.tree[pth]
				}
			}
			if fmt.Sprint(got) != fmt.Sprint(want) {
				res.Violate("entries-differ", p.Op, "after %s(%s): bundle %s of %s has %d entries, expected %d (removed paths: %v)", p.Op, target, bi.id, name, len(got), len(want), delPaths)
				return false
			}
			dest := env.W.Store(fmt.Sprintf("dest-%s-%s", name, bi.id))
			if err := env.Publish(nil, name, bi.id, dest.For(nil), 4); err != nil {
				res.Violate("bundle-not-downloadable", p.Op, "after %s(%s): bundle %s of %s does not download: %v", p.Op, target, bi.id, name, err)
				return false
			}
			if d := coreh.DiffTrees(coreh.WithoutMeta(coreh.StoreTree(dest)), wantTree); d != "" {
				res.Violate("bundle-content", p.Op, "after %s(%s): bundle %s of %s: %s", p.Op, target, bi.id, name, d)
				return false
			}
			res.Stat("bundles_checked", 1)
		}
		ls, err := core.ListLabels(name, obs)
		got := map[string]string{}
		for _, l := range ls {
			got[l.Name] = l.BundleID
		}
		if err != nil || fmt.Sprint(got) != fmt.Sprint(lbls) {
			res.Violate("labels-differ", p.Op, "after %s(%s): labels of %s are %v (err %v), expected %v", p.Op, target, name, got, err, lbls)
			return false
		}
		return true
	}
	for k := range before {
		if strings.HasPrefix(k, "blob:") {
			if _, ok := after[k]; !ok {
				res.Violate("blob-removed", p.Op, "%s(%s) removed blob %s", p.Op, target, k[:30])
				return
			}
		}
	}
	_ = wantIDs
	switch p.Op {
	case "delete":
		for k := range after {
			o := owner(k)
			if o == target && !strings.HasPrefix(k, "vmeta:diamonds/") {
				if faultDesc != "" {
					// a store call failed and deletion deliberately ignores errors on single bundle objects: leftovers
					// are not data loss, the property does not promise a complete clean-up under store faults
					res.Stat("leftovers_after_faulted_delete", 1)
					break
				}
				res.Violate("repo-object-left-behind", p.Op+"|"+strings.SplitN(strings.SplitN(k, ":", 2)[1], "/", 2)[0], "DeleteRepo(%s) left %s behind", target, k)
				return
			}
		}
		if core.RepoExists(target, obs) == nil && faultDesc == "" {
			res.Violate("repo-still-exists", p.Op, "DeleteRepo(%s): the repository still exists", target)
		}
	case "rename":
		for k := range after {
			if owner(k) == target && !strings.HasPrefix(k, "vmeta:diamonds/") {
				if faultDesc != "" {
					res.Stat("leftovers_after_faulted_delete", 1)
					break
				}
				res.Violate("repo-object-left-behind", p.Op, "RenameRepo(%s) left %s behind under the old name", target, k)
				return
			}
		}
		if !checkRepo("renamed", info[target], labels[target], nil) {
			return
		}
	case "delete-files":
		rm := map[string]bool{}
		for _, d := range delPaths {
			rm[d] = true
		}
		if !checkRepo(target, info[target], labels[target], rm) {
			return
		}
	}
	for _, rp := range repoNames {
		if rp != target {
			if !checkRepo(rp, info[rp], labels[rp], nil) {
				return
			}
		}
	}
	res.Sample = map[string]interface{}{"op": p.Op, "target": target, "objects_before": len(before), "objects_after": len(after), "store_calls": calls,
		"delete_missing_nil": p.DelNil, "zero_file_bundle": p.ZeroFile, "paths_deleted": clip(delPaths)}
}

func clip(xs []string) []string {
	if len(xs) > 5 {
		return xs[:5]
	}
	return xs
}

func min(a, b int) int {
	if a < b {
		return a
	}
	return b
}

func TestC09(t *testing.T) {
	drv.Main(t, drv.Driver{ID: "C09", Gen: gen09, Run: run09, CaseTimeout: 30 * time.Minute})
}
