package memstore

import (
	"bytes"
	"context"
	"fmt"
	"io/ioutil"
	"math/rand"
	"sort"
	"strings"
	"sync"
	"sync/atomic"
	"testing"
	"time"

	"github.com/anishathalye/porcupine"
)

type in struct {
	Op  string // put, putx, get, del
	Key string
	Val string
}
type out struct {
	Ok  bool
	Val string
}

// TestLinearizable: the reference store itself is checked against a sequential map.
func TestLinearizable(t *testing.T) {
	model := porcupine.Model{
		Partition: func(h []porcupine.Operation) [][]porcupine.Operation {
			m := map[string][]porcupine.Operation{}
			for _, o := range h {
				m[o.Input.(in).Key] = append(m[o.Input.(in).Key], o)
			}
			var r [][]porcupine.Operation
			for _, v := range m {
				r = append(r, v)
			}
			return r
		},
		Init: func() interface{} { return "\x00absent" },
		Step: func(st, i, o interface{}) (bool, interface{}) {
			s, x, y := st.(string), i.(in), o.(out)
			switch x.Op {
			case "put":
				return y.Ok, x.Val
			case "putx":
				if s == "\x00absent" {
					return y.Ok, x.Val
				}
				return !y.Ok, s
			case "get":
				if s == "\x00absent" {
					return !y.Ok, s
				}
				return y.Ok && y.Val == s, s
			case "del":
				if s == "\x00absent" {
					return !y.Ok, s
				}
				return y.Ok, "\x00absent"
			}
			return false, s
		},
	}
	for round := 0; round < 20; round++ {
		w := NewWorld(Config{})
		s := w.Store("s")
		var clock int64
		var mu sync.Mutex
		var ops []porcupine.Operation
		var wg sync.WaitGroup
		for c := 0; c < 6; c++ {
			wg.Add(1)
			go func(c int) {
				defer wg.Done()
				r := rand.New(rand.NewSource(int64(round*100 + c)))
				v := s.For(NewActor(fmt.Sprint("c", c)))
				for i := 0; i < 40; i++ {
					x := in{Op: []string{"put", "putx", "get", "del"}[r.Intn(4)], Key: fmt.Sprint("k", r.Intn(3)), Val: fmt.Sprintf("v%d-%d", c, i)}
					var y out
					call := atomic.AddInt64(&clock, 1)
					switch x.Op {
					case "put":
						y.Ok = v.Put(context.Background(), x.Key, strings.NewReader(x.Val), false) == nil
					case "putx":
						y.Ok = v.Put(context.Background(), x.Key, strings.NewReader(x.Val), true) == nil
					case "get":
						rc, err := v.Get(context.Background(), x.Key)
						if err == nil {
							b, _ := ioutil.ReadAll(rc)
							y = out{true, string(b)}
						}
					case "del":
						y.Ok = v.Delete(context.Background(), x.Key) == nil
					}
					ret := atomic.AddInt64(&clock, 1)
					mu.Lock()
					ops = append(ops, porcupine.Operation{ClientId: c, Input: x, Call: call, Output: y, Return: ret})
					mu.Unlock()
				}
			}(c)
		}
		wg.Wait()
		res, _ := porcupine.CheckOperationsVerbose(model, ops, time.Minute)
		if res != porcupine.Ok {
			t.Fatalf("memstore history not linearizable: %v", res)
		}
	}
}

// TestListing: paged listings equal the naive definition for all page sizes and both token styles.
func TestListing(t *testing.T) {
	r := rand.New(rand.NewSource(7))
	comps := []string{"a", "ab", "a-b", "b", "a.b", "é"}
	for round := 0; round < 60; round++ {
		cfg := Config{StartKeyToken: round%2 == 1, LazyLastPage: round%3 == 2}
		w := NewWorld(cfg)
		s := w.Store("s")
		v := s.For(nil)
		keys := map[string]bool{}
		for i := 0; i < 1+r.Intn(25); i++ {
			n := 1 + r.Intn(4)
			var p []string
			for j := 0; j < n; j++ {
				p = append(p, comps[r.Intn(len(comps))])
			}
			k := strings.Join(p, "/")
			keys[k] = true
			_ = v.Put(context.Background(), k, bytes.NewReader([]byte("x")), false)
		}
		var all []string
		for k := range keys {
			all = append(all, k)
		}
		sort.Strings(all)
		for _, prefix := range []string{"", "a", "a/", "ab/", "a/a", "zz", "a-b/"} {
			for _, delim := range []string{"", "/", "-"} {
				// naive
				want := map[string]bool{}
				for _, k := range all {
					if !strings.HasPrefix(k, prefix) {
						continue
					}
					rest := k[len(prefix):]
					if delim != "" {
						if i := strings.Index(rest, delim); i >= 0 {
							want[prefix+rest[:i+len(delim)]] = true
							continue
						}
					}
					want[k] = true
				}
				var ws []string
				for k := range want {
					ws = append(ws, k)
				}
				sort.Strings(ws)
				for count := 1; count <= len(ws)+1; count++ {
					var got []string
					tok := ""
					for pages := 0; ; pages++ {
						page, next, err := v.KeysPrefix(context.Background(), tok, prefix, delim, count)
						if err != nil {
							t.Fatal(err)
						}
						if len(page) > count {
							t.Fatalf("page larger than count")
						}
						got = append(got, page...)
						if next == "" {
							break
						}
						tok = next
						if pages > 1000 {
							t.Fatal("listing does not end")
						}
					}
					if strings.Join(got, "\n") != strings.Join(ws, "\n") {
						t.Fatalf("cfg=%+v prefix=%q delim=%q count=%d: got %v want %v", cfg, prefix, delim, count, got, ws)
					}
				}
			}
		}
	}
}

// TestCrashAndGate: a crashed actor blocks forever; a gated actor parks and resumes.
func TestCrashAndGate(t *testing.T) {
	w := NewWorld(Config{})
	s := w.Store("s")
	a := NewActor("a").CrashAt(2, true)
	v := s.For(a)
	done := make(chan struct{})
	go func() {
		_ = v.Put(context.Background(), "k1", strings.NewReader("1"), false)
		_ = v.Put(context.Background(), "k2", strings.NewReader("2"), false)
		_ = v.Put(context.Background(), "k3", strings.NewReader("3"), false)
		close(done)
	}()
	select {
	case <-a.Dead():
	case <-done:
		t.Fatal("actor survived")
	}
	time.Sleep(20 * time.Millisecond)
	if got := strings.Join(s.RawKeys(), ","); got != "k1,k2" {
		t.Fatalf("after crash-after at write 2: %s", got)
	}
	b := NewActor("b")
	g := b.GateAt(2)
	vb := s.For(b)
	fin := make(chan struct{})
	go func() {
		_, _ = vb.Has(context.Background(), "k1")
		_ = vb.Put(context.Background(), "k9", strings.NewReader("9"), false)
		close(fin)
	}()
	<-g.Parked()
	if _, ok := s.RawGet("k9"); ok {
		t.Fatal("gated write landed")
	}
	g.Release()
	<-fin
	if _, ok := s.RawGet("k9"); !ok {
		t.Fatal("released write missing")
	}
}
