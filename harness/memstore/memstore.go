// Package memstore is the reference object store used by the verification harness.
//
// It implements datamon's storage.Store with the semantics datamon is written against
// (GCS): atomic whole-object Put, create-if-absent for exactly one writer, lexicographic
// prefix listings with a delimiter and paging. All stores of a World share one mutex and
// one event log, so the order of the log is the linearisation order of the store.
//
// Clients get an Actor-bound View of a store; the actor can be crashed at its k-th
// mutating call, paused (gated) at its i-th call, fed transient faults, delayed, and is
// stopped by an operation budget.
package memstore

import (
	"bytes"
	"context"
	"errors"
	"fmt"
	"hash/crc32"
	"io"
	"io/ioutil"
	"sort"
	"strings"
	"sync"
	"time"

	"github.com/oneconcern/datamon/pkg/storage"
	"github.com/oneconcern/datamon/pkg/storage/status"
)

// Config carries the documented divergences between supported back ends.
type Config struct {
	// DeleteMissingNil: Delete of a missing key returns nil (S3, localfs) instead of ErrNotExists (GCS).
	DeleteMissingNil bool
	// StartKeyToken: the page token is the first key of the next page (a start key); otherwise opaque.
	StartKeyToken bool
	// LazyLastPage: when a page is exactly filled by the last items, still hand out a token; the
	// page after it is empty with an empty token (legal for a GCS pager).
	LazyLastPage bool
	// ChunkedReader > 0: readers returned by Get deliver at most that many bytes per Read and
	// end with (0, io.EOF); 0: bytes.Reader.
	ChunkedReader int
	// NoCRC: views do not implement storage.StoreCRC.
	NoCRC bool
	// EOFWithData: readers returned by Get deliver their last bytes TOGETHER with io.EOF (legal for an io.Reader and
	// usual for HTTP bodies), instead of a final (0, io.EOF).
	EOFWithData bool
}

// Clock provides object times.
type Clock interface{ Now() time.Time }

// RealClock is time.Now made strictly increasing.
type RealClock struct {
	mu   sync.Mutex
	last time.Time
}

// Now returns a strictly increasing wall-clock time.
func (c *RealClock) Now() time.Time {
	c.mu.Lock()
	defer c.mu.Unlock()
	n := time.Now()
	if !n.After(c.last) {
		n = c.last.Add(time.Microsecond)
	}
	c.last = n
	return n
}

// VirtualClock only moves when told to.
type VirtualClock struct {
	mu sync.Mutex
	t  time.Time
}

// NewVirtualClock starts at t.
func NewVirtualClock(t time.Time) *VirtualClock { return &VirtualClock{t: t} }

// Now returns the current virtual time.
func (c *VirtualClock) Now() time.Time { c.mu.Lock(); defer c.mu.Unlock(); return c.t }

// Advance moves the clock.
func (c *VirtualClock) Advance(d time.Duration) time.Time {
	c.mu.Lock()
	defer c.mu.Unlock()
	c.t = c.t.Add(d)
	return c.t
}

// Event is one store call as it was linearised.
type Event struct {
	Seq    int64  `json:"seq"`
	Actor  string `json:"actor"`
	Store  string `json:"store"`
	Op     string `json:"op"`
	Key    string `json:"key"`
	Arg    string `json:"arg,omitempty"`
	Err    string `json:"err,omitempty"`
	Landed bool   `json:"landed,omitempty"` // a mutation was applied
	Size   int    `json:"size,omitempty"`
	Sum    uint32 `json:"sum,omitempty"` // crc32 of the bytes written
	N      int    `json:"n,omitempty"`   // number of keys returned by a listing
	T      int64  `json:"t,omitempty"`   // touch: the update time given to the object (unix nanoseconds)
}

// World is a set of stores sharing one lock, one log, one clock.
type World struct {
	mu     sync.Mutex
	seq    int64
	stores map[string]*Store
	log    []Event
	Clock  Clock
	Cfg    Config
	// OnEvent, when set, is called under the world lock for every event (online monitors).
	OnEvent func(w *World, e *Event)
	// KeepLog bounds the in-memory log (0: unbounded).
	KeepLog int
	dropped int64
}

// NewWorld creates an empty world with the real clock.
func NewWorld(cfg Config) *World {
	return &World{stores: map[string]*Store{}, Clock: &RealClock{}, Cfg: cfg}
}

type object struct {
	data    []byte
	created time.Time
	updated time.Time
}

// Store is the shared state of one bucket.
type Store struct {
	w      *World
	name   string
	objs   map[string]*object
	sorted []string // cache of the sorted key list, nil when stale
}

// Store returns (creating it if needed) the named store.
func (w *World) Store(name string) *Store {
	w.mu.Lock()
	defer w.mu.Unlock()
	s, ok := w.stores[name]
	if !ok {
		s = &Store{w: w, name: name, objs: map[string]*object{}}
		w.stores[name] = s
	}
	return s
}

// Clone deep-copies the stores (not the log); object byte slices are shared (they are immutable).
func (w *World) Clone() *World {
	w.mu.Lock()
	defer w.mu.Unlock()
	n := &World{stores: map[string]*Store{}, Clock: w.Clock, Cfg: w.Cfg, seq: w.seq, KeepLog: w.KeepLog}
	for name, s := range w.stores {
		ns := &Store{w: n, name: name, objs: make(map[string]*object, len(s.objs))}
		for k, o := range s.objs {
			c := *o
			ns.objs[k] = &c
		}
		n.stores[name] = ns
	}
	return n
}

// Seq returns the current sequence number (number of events so far).
func (w *World) Seq() int64 { w.mu.Lock(); defer w.mu.Unlock(); return w.seq }

// Log returns a copy of the events with Seq > after.
func (w *World) Log(after int64) []Event {
	w.mu.Lock()
	defer w.mu.Unlock()
	out := []Event{}
	for _, e := range w.log {
		if e.Seq > after {
			out = append(out, e)
		}
	}
	return out
}

// Snapshot returns key -> bytes of a store (shared slices, do not modify).
func (s *Store) Snapshot() map[string][]byte {
	s.w.mu.Lock()
	defer s.w.mu.Unlock()
	m := make(map[string][]byte, len(s.objs))
	for k, o := range s.objs {
		m[k] = o.data
	}
	return m
}

// Updated returns the update time of a key.
func (s *Store) Updated(key string) (time.Time, bool) {
	s.w.mu.Lock()
	defer s.w.mu.Unlock()
	o, ok := s.objs[key]
	if !ok {
		return time.Time{}, false
	}
	return o.updated, true
}

// RawPut sets an object without logging (test set-up, corruption injection).
func (s *Store) RawPut(key string, data []byte) {
	s.w.mu.Lock()
	defer s.w.mu.Unlock()
	now := s.w.Clock.Now()
	if o, ok := s.objs[key]; ok {
		o.data = append([]byte(nil), data...)
		return
	}
	s.objs[key] = &object{data: append([]byte(nil), data...), created: now, updated: now}
	s.sorted = nil
}

// RawDelete removes an object without logging.
func (s *Store) RawDelete(key string) {
	s.w.mu.Lock()
	defer s.w.mu.Unlock()
	delete(s.objs, key)
	s.sorted = nil
}

// RawGet returns the bytes of an object.
func (s *Store) RawGet(key string) ([]byte, bool) {
	s.w.mu.Lock()
	defer s.w.mu.Unlock()
	o, ok := s.objs[key]
	if !ok {
		return nil, false
	}
	return o.data, true
}

// RawKeys returns all keys sorted.
func (s *Store) RawKeys() []string {
	s.w.mu.Lock()
	defer s.w.mu.Unlock()
	return append([]string(nil), s.sortedKeysLocked()...)
}

// sortedKeysLocked returns the sorted keys; callers must not modify the result.
func (s *Store) sortedKeysLocked() []string {
	if s.sorted != nil && len(s.sorted) == len(s.objs) {
		return s.sorted
	}
	ks := make([]string, 0, len(s.objs))
	for k := range s.objs {
		ks = append(ks, k)
	}
	sort.Strings(ks)
	s.sorted = ks
	return ks
}

// Name of the store.
func (s *Store) Name() string { return s.name }

// ---------------------------------------------------------------------------------------
// Actors

// Fault decides whether a call fails before taking effect. Called under the actor lock.
type Fault func(c Call) error

// Call describes a store call about to be made by an actor.
type Call struct {
	Store    string
	Op       string
	Key      string
	Index    int // 1-based index among all calls of the actor
	MutIndex int // 1-based index among mutating calls (0 for non mutating)
}

// Actor is one datamon client (one process, as far as the stores can tell).
type Actor struct {
	Name string

	mu        sync.Mutex
	calls     int
	muts      int
	dead      bool
	deadCh    chan struct{}
	deadOnce  sync.Once
	crashAt   int  // mutating call index; 0 = never
	crashPost bool // apply the write, then die
	crashKey  string
	crashOp   string
	crashFn   func(c Call) bool
	crashFnN  int
	crashTorn bool // with crash-after: the object is created but its content never arrives (empty object)
	readFault func(c Call, size int) (int, error)
	onCall    func(c Call)
	budget    int
	over      bool
	fault     Fault
	gates     map[int]*gate
	gateFn    func(c Call) bool // park at the first call for which it returns true
	gateFnG   *gate
	delay     func() time.Duration
	faults    int
}

type gate struct {
	parked  chan struct{}
	release chan struct{}
	call    Call
}

// NewActor creates an actor; budget 0 means unlimited.
func NewActor(name string) *Actor {
	return &Actor{Name: name, deadCh: make(chan struct{}), gates: map[int]*gate{}}
}

// CrashAt makes the actor die at its k-th mutating call, before or after the write lands.
func (a *Actor) CrashAt(k int, after bool) *Actor {
	a.mu.Lock()
	a.crashAt, a.crashPost = k, after
	a.mu.Unlock()
	return a
}

// CrashWhen makes the actor die at the n-th (1-based) mutating call for which f returns true.
func (a *Actor) CrashWhen(f func(c Call) bool, n int, after bool) *Actor {
	a.mu.Lock()
	a.crashFn, a.crashFnN, a.crashPost = f, n, after
	a.mu.Unlock()
	return a
}

// Torn makes the write at which the actor crashes (mode "after") land as an EMPTY object: what a store without atomic
// writes leaves when the client dies between creating the object and sending its content.
func (a *Actor) Torn() *Actor { a.mu.Lock(); a.crashTorn = true; a.mu.Unlock(); return a }

// SetReadFault installs a body fault for Get: when f returns a non-nil error for a call, the reader handed out delivers
// only the first n bytes of the object and then fails with that error (a transfer cut mid-body).
func (a *Actor) SetReadFault(f func(c Call, size int) (int, error)) *Actor {
	a.mu.Lock()
	a.readFault = f
	a.mu.Unlock()
	return a
}

type cutReader struct {
	data []byte
	err  error
}

func (c *cutReader) Read(p []byte) (int, error) {
	if len(c.data) == 0 {
		return 0, c.err
	}
	n := copy(p, c.data)
	c.data = c.data[n:]
	return n, nil
}

func (c *cutReader) Close() error { return nil }

// OnCall installs a function run at the beginning of every store call of the actor, outside any lock;
// it may block (driver-controlled pre-emption point).
func (a *Actor) OnCall(f func(c Call)) *Actor { a.mu.Lock(); a.onCall = f; a.mu.Unlock(); return a }

// SetBudget bounds the number of store calls; beyond it every call fails.
func (a *Actor) SetBudget(n int) *Actor { a.mu.Lock(); a.budget = n; a.mu.Unlock(); return a }

// SetFault installs a fault script.
func (a *Actor) SetFault(f Fault) *Actor { a.mu.Lock(); a.fault = f; a.mu.Unlock(); return a }

// SetDelay installs a delay source (stress runs only).
func (a *Actor) SetDelay(f func() time.Duration) *Actor {
	a.mu.Lock()
	a.delay = f
	a.mu.Unlock()
	return a
}

// GateAt parks the actor inside its i-th call (before it takes effect) until Release.
func (a *Actor) GateAt(i int) *Gate {
	g := &gate{parked: make(chan struct{}), release: make(chan struct{})}
	a.mu.Lock()
	a.gates[i] = g
	a.mu.Unlock()
	return &Gate{g: g}
}

// GateWhen parks the actor at the first call matching f.
func (a *Actor) GateWhen(f func(c Call) bool) *Gate {
	g := &gate{parked: make(chan struct{}), release: make(chan struct{})}
	a.mu.Lock()
	a.gateFn, a.gateFnG = f, g
	a.mu.Unlock()
	return &Gate{g: g}
}

// Gate is a handle on a pre-emption point.
type Gate struct {
	g    *gate
	once sync.Once
}

// Parked is closed once the actor is parked at the gate.
func (g *Gate) Parked() <-chan struct{} { return g.g.parked }

// Call returns the call at which the actor parked (valid after Parked).
func (g *Gate) Call() Call { return g.g.call }

// Release lets the actor continue.
func (g *Gate) Release() { g.once.Do(func() { close(g.g.release) }) }

// Dead is closed when the actor crashed.
func (a *Actor) Dead() <-chan struct{} { return a.deadCh }

// IsDead reports whether the actor crashed.
func (a *Actor) IsDead() bool { a.mu.Lock(); defer a.mu.Unlock(); return a.dead }

// CrashPoint reports where the actor died.
func (a *Actor) CrashPoint() (op, key string) {
	a.mu.Lock()
	defer a.mu.Unlock()
	return a.crashOp, a.crashKey
}

// OverBudget reports whether the budget was exceeded.
func (a *Actor) OverBudget() bool { a.mu.Lock(); defer a.mu.Unlock(); return a.over }

// Calls returns (all calls, mutating calls) made so far.
func (a *Actor) Calls() (int, int) { a.mu.Lock(); defer a.mu.Unlock(); return a.calls, a.muts }

// FaultsInjected returns the number of injected faults.
func (a *Actor) FaultsInjected() int { a.mu.Lock(); defer a.mu.Unlock(); return a.faults }

// ErrBudget is returned once the actor exceeded its budget.
var ErrBudget = errors.New("verif: store-call budget of this operation exceeded")

// ErrInjected marks injected transient faults.
var ErrInjected = errors.New("verif: injected transient store fault")

type verdict int

const (
	proceed verdict = iota
	dieBefore
	dieAfter
)

// enter is called at the beginning of every store call of the actor.
func (a *Actor) enter(store, op, key string, mutating bool) (verdict, error) {
	if a == nil {
		return proceed, nil
	}
	a.mu.Lock()
	if a.dead {
		a.mu.Unlock()
		select {} // a dead process makes no progress
	}
	a.calls++
	c := Call{Store: store, Op: op, Key: key, Index: a.calls}
	if mutating {
		a.muts++
		c.MutIndex = a.muts
	}
	if a.budget > 0 && a.calls > a.budget {
		a.over = true
		a.mu.Unlock()
		return proceed, ErrBudget
	}
	g := a.gates[c.Index]
	if g != nil {
		delete(a.gates, c.Index)
	} else if a.gateFn != nil && a.gateFn(c) {
		g = a.gateFnG
		a.gateFn, a.gateFnG = nil, nil
	}
	delay := a.delay
	onCall := a.onCall
	a.mu.Unlock()

	if onCall != nil {
		onCall(c) // may block: a general pre-emption point controlled by the driver
	}
	if g != nil {
		g.call = c
		close(g.parked)
		<-g.release
	}
	if delay != nil {
		if d := delay(); d > 0 {
			time.Sleep(d)
		}
	}

	a.mu.Lock()
	defer a.mu.Unlock()
	if a.dead { // crashed by another goroutine of the same actor meanwhile
		a.mu.Unlock()
		select {}
	}
	if a.fault != nil {
		if err := a.fault(c); err != nil {
			a.faults++
			return proceed, err
		}
	}
	hit := mutating && a.crashAt > 0 && c.MutIndex == a.crashAt
	if !hit && mutating && a.crashFn != nil && a.crashFn(c) {
		a.crashFnN--
		hit = a.crashFnN == 0
	}
	if hit {
		a.crashOp, a.crashKey = op, store+":"+key
		a.dead = true // every other call of this actor blocks from now on
		if a.crashPost {
			return dieAfter, nil
		}
		a.deadOnce.Do(func() { close(a.deadCh) })
		return dieBefore, nil
	}
	return proceed, nil
}

func (a *Actor) die() {
	a.mu.Lock()
	a.dead = true
	a.mu.Unlock()
	a.deadOnce.Do(func() { close(a.deadCh) })
}

// Kill marks the actor dead from outside (all its further calls block).
func (a *Actor) Kill() { a.die() }

// ---------------------------------------------------------------------------------------
// Views

// View is an actor-bound handle on a store, implementing storage.Store.
type View struct {
	s *Store
	a *Actor
}

// ViewCRC additionally implements storage.StoreCRC.
type ViewCRC struct{ View }

var (
	_ storage.Store    = &View{}
	_ storage.StoreCRC = &ViewCRC{}
)

// For returns the actor's view of the store (a == nil: unattributed, never faulted).
func (s *Store) For(a *Actor) storage.Store {
	if s.w.Cfg.NoCRC {
		return &View{s: s, a: a}
	}
	return &ViewCRC{View{s: s, a: a}}
}

func (v *View) actorName() string {
	if v.a == nil {
		return "-"
	}
	return v.a.Name
}

// record must be called with the world lock held.
func (v *View) record(e Event) {
	w := v.s.w
	w.seq++
	e.Seq = w.seq
	e.Actor = v.actorName()
	e.Store = v.s.name
	w.log = append(w.log, e)
	if w.KeepLog > 0 && len(w.log) > 2*w.KeepLog {
		w.dropped += int64(len(w.log) - w.KeepLog)
		w.log = append([]Event(nil), w.log[len(w.log)-w.KeepLog:]...)
	}
	if w.OnEvent != nil {
		w.OnEvent(w, &w.log[len(w.log)-1])
	}
}

func errStr(err error) string {
	if err == nil {
		return ""
	}
	return err.Error()
}

func (v *View) String() string { return "mem://" + v.s.name }

func notExists(key string) error {
	return status.ErrNotExists.Wrap(fmt.Errorf("storage: object doesn't exist: %s", key))
}

// preconditionFailed mimics what the GCS back end returns for a failed DoesNotExist condition.
func preconditionFailed() error {
	return status.ErrStorageAPI.Wrap(errors.New("googleapi: Error 412: Precondition Failed, conditionNotMet"))
}

func (v *View) pre(op, key string, mutating bool) (verdict, error) {
	vd, err := v.a.enter(v.s.name, op, key, mutating)
	if err != nil {
		v.s.w.mu.Lock()
		v.record(Event{Op: op, Key: key, Err: errStr(err)})
		v.s.w.mu.Unlock()
	}
	if vd == dieBefore {
		v.s.w.mu.Lock()
		v.record(Event{Op: "crash-before-" + op, Key: key})
		v.s.w.mu.Unlock()
		select {}
	}
	return vd, err
}

func (v *View) post(vd verdict, op, key string) {
	if vd == dieAfter {
		v.s.w.mu.Lock()
		v.record(Event{Op: "crash-after-" + op, Key: key})
		v.s.w.mu.Unlock()
		v.a.die()
		select {}
	}
}

// Has implements storage.Store.
func (v *View) Has(_ context.Context, key string) (bool, error) {
	if _, err := v.pre("has", key, false); err != nil {
		return false, err
	}
	w := v.s.w
	w.mu.Lock()
	defer w.mu.Unlock()
	_, ok := v.s.objs[key]
	v.record(Event{Op: "has", Key: key, N: b2i(ok)})
	return ok, nil
}

func b2i(b bool) int {
	if b {
		return 1
	}
	return 0
}

type chunkedReader struct {
	data []byte
	n    int
	eofT bool // the last bytes come together with io.EOF
}

func (c *chunkedReader) Read(p []byte) (int, error) {
	if len(c.data) == 0 {
		return 0, io.EOF
	}
	n := c.n
	if n > len(p) {
		n = len(p)
	}
	if n > len(c.data) {
		n = len(c.data)
	}
	copy(p, c.data[:n])
	c.data = c.data[n:]
	if c.eofT && len(c.data) == 0 {
		return n, io.EOF
	}
	return n, nil
}

func (c *chunkedReader) Close() error { return nil }

// Get implements storage.Store.
func (v *View) Get(_ context.Context, key string) (io.ReadCloser, error) {
	if _, err := v.pre("get", key, false); err != nil {
		return nil, err
	}
	w := v.s.w
	w.mu.Lock()
	defer w.mu.Unlock()
	o, ok := v.s.objs[key]
	if !ok {
		err := notExists(key)
		v.record(Event{Op: "get", Key: key, Err: errStr(err)})
		return nil, err
	}
	if v.a != nil {
		v.a.mu.Lock()
		rf := v.a.readFault
		v.a.mu.Unlock()
		if rf != nil {
			if n, ferr := rf(Call{Store: v.s.name, Op: "get", Key: key}, len(o.data)); ferr != nil {
				if n > len(o.data) {
					n = len(o.data)
				}
				v.record(Event{Op: "get", Key: key, Size: n, Err: "body cut: " + ferr.Error()})
				v.a.mu.Lock()
				v.a.faults++
				v.a.mu.Unlock()
				return &cutReader{data: o.data[:n], err: ferr}, nil
			}
		}
	}
	v.record(Event{Op: "get", Key: key, Size: len(o.data)})
	if n := w.Cfg.ChunkedReader; n > 0 {
		return &chunkedReader{data: o.data, n: n, eofT: w.Cfg.EOFWithData}, nil
	}
	if w.Cfg.EOFWithData {
		return &chunkedReader{data: o.data, n: 1 << 30, eofT: true}, nil
	}
	return ioutil.NopCloser(bytes.NewReader(o.data)), nil
}

// GetAttr implements storage.Store.
func (v *View) GetAttr(_ context.Context, key string) (storage.Attributes, error) {
	if _, err := v.pre("getattr", key, false); err != nil {
		return storage.Attributes{}, err
	}
	w := v.s.w
	w.mu.Lock()
	defer w.mu.Unlock()
	o, ok := v.s.objs[key]
	if !ok {
		err := notExists(key)
		v.record(Event{Op: "getattr", Key: key, Err: errStr(err)})
		return storage.Attributes{}, err
	}
	v.record(Event{Op: "getattr", Key: key, Size: len(o.data)})
	return storage.Attributes{
		Created: o.created,
		Updated: o.updated,
		Owner:   "verif",
		Size:    int64(len(o.data)),
		CRC32C:  crc32.Checksum(o.data, crc32.MakeTable(crc32.Castagnoli)),
	}, nil
}

type readerAt struct {
	v   *View
	key string
}

func (r *readerAt) ReadAt(p []byte, off int64) (int, error) {
	if _, err := r.v.pre("readat", r.key, false); err != nil {
		return 0, err
	}
	w := r.v.s.w
	w.mu.Lock()
	defer w.mu.Unlock()
	o, ok := r.v.s.objs[r.key]
	if !ok {
		err := notExists(r.key)
		r.v.record(Event{Op: "readat", Key: r.key, Err: errStr(err)})
		return 0, err
	}
	r.v.record(Event{Op: "readat", Key: r.key, Size: len(p)})
	if off < 0 {
		return 0, errors.New("negative offset")
	}
	if off >= int64(len(o.data)) {
		return 0, io.EOF
	}
	n := copy(p, o.data[off:])
	if n < len(p) {
		return n, io.EOF
	}
	return n, nil
}

// GetAt implements storage.Store (like GCS: never fails by itself, each ReadAt is a ranged read).
func (v *View) GetAt(_ context.Context, key string) (io.ReaderAt, error) {
	return &readerAt{v: v, key: key}, nil
}

// Touch implements storage.Store.
func (v *View) Touch(_ context.Context, key string) error {
	vd, err := v.pre("touch", key, true)
	if err != nil {
		return err
	}
	w := v.s.w
	w.mu.Lock()
	o, ok := v.s.objs[key]
	if !ok {
		err = notExists(key)
		v.record(Event{Op: "touch", Key: key, Err: errStr(err)})
	} else {
		o.updated = w.Clock.Now()
		v.record(Event{Op: "touch", Key: key, Landed: true, T: o.updated.UnixNano()})
	}
	w.mu.Unlock()
	v.post(vd, "touch", key)
	return err
}

// Put implements storage.Store.
func (v *View) Put(ctx context.Context, key string, rdr io.Reader, noOverwrite bool) error {
	return v.put(ctx, key, rdr, noOverwrite, false, 0)
}

// PutCRC implements storage.StoreCRC.
func (v *ViewCRC) PutCRC(ctx context.Context, key string, rdr io.Reader, noOverwrite bool, crc uint32) error {
	return v.put(ctx, key, rdr, noOverwrite, true, crc)
}

func (v *View) put(_ context.Context, key string, rdr io.Reader, noOverwrite, withCRC bool, crc uint32) error {
	// the source is drained first (it may be a pipe fed by the caller), like a streaming upload
	data, rerr := ioutil.ReadAll(rdr)
	op := "put"
	if noOverwrite {
		op = "putx"
	}
	vd, err := v.pre(op, key, true)
	if err != nil {
		return err
	}
	if vd == dieAfter && v.a != nil {
		v.a.mu.Lock()
		if v.a.crashTorn {
			data, withCRC = []byte{}, false
		}
		v.a.mu.Unlock()
	}
	w := v.s.w
	w.mu.Lock()
	switch {
	case rerr != nil:
		err = rerr
		v.record(Event{Op: op, Key: key, Err: "source: " + errStr(err)})
	case withCRC && crc32.Checksum(data, crc32.MakeTable(crc32.Castagnoli)) != crc:
		err = status.ErrStorageAPI.Wrap(errors.New("googleapi: Error 400: Provided CRC32C doesn't match calculated CRC32C"))
		v.record(Event{Op: op, Key: key, Err: errStr(err), Size: len(data)})
	default:
		o, ok := v.s.objs[key]
		if ok && noOverwrite {
			err = preconditionFailed()
			v.record(Event{Op: op, Key: key, Err: errStr(err), Size: len(data)})
			break
		}
		now := w.Clock.Now()
		oldSize := 0
		if ok {
			oldSize = len(o.data)
			o.data, o.updated = data, now
			// GCS: an overwrite creates a new generation; Created is that generation's time
			o.created = now
		} else {
			v.s.objs[key] = &object{data: data, created: now, updated: now}
			v.s.sorted = nil
		}
		arg := ""
		if ok {
			arg = fmt.Sprintf("overwrite:%d", oldSize)
		}
		v.record(Event{Op: op, Key: key, Landed: true, Size: len(data), Sum: crc32.ChecksumIEEE(data), Arg: arg})
	}
	w.mu.Unlock()
	v.post(vd, op, key)
	return err
}

// Delete implements storage.Store.
func (v *View) Delete(_ context.Context, key string) error {
	vd, err := v.pre("delete", key, true)
	if err != nil {
		return err
	}
	w := v.s.w
	w.mu.Lock()
	if _, ok := v.s.objs[key]; !ok {
		if !w.Cfg.DeleteMissingNil {
			err = notExists(key)
		}
		v.record(Event{Op: "delete", Key: key, Err: errStr(err)})
	} else {
		delete(v.s.objs, key)
		v.s.sorted = nil
		v.record(Event{Op: "delete", Key: key, Landed: true})
	}
	w.mu.Unlock()
	v.post(vd, "delete", key)
	return err
}

// Clear implements storage.Store.
func (v *View) Clear(_ context.Context) error {
	vd, err := v.pre("clear", "", true)
	if err != nil {
		return err
	}
	w := v.s.w
	w.mu.Lock()
	v.s.objs = map[string]*object{}
	v.s.sorted = nil
	v.record(Event{Op: "clear", Landed: true})
	w.mu.Unlock()
	v.post(vd, "clear", "")
	return nil
}

// Keys implements storage.Store.
func (v *View) Keys(_ context.Context) ([]string, error) {
	if _, err := v.pre("keys", "", false); err != nil {
		return nil, err
	}
	w := v.s.w
	w.mu.Lock()
	defer w.mu.Unlock()
	ks := append([]string(nil), v.s.sortedKeysLocked()...)
	v.record(Event{Op: "keys", N: len(ks)})
	return ks, nil
}

// ListItems is the reference listing: the sorted items for (prefix, delimiter).
func ListItems(sortedKeys []string, prefix, delimiter string) []string {
	items := []string{}
	last := ""
	for _, k := range sortedKeys[sort.SearchStrings(sortedKeys, prefix):] {
		if !strings.HasPrefix(k, prefix) {
			break // keys with a given prefix are contiguous in sorted order
		}
		item := k
		if delimiter != "" {
			rest := k[len(prefix):]
			if i := strings.Index(rest, delimiter); i >= 0 {
				item = prefix + rest[:i+len(delimiter)]
			}
		}
		if len(items) > 0 && item == last {
			continue
		}
		items = append(items, item)
		last = item
	}
	// items derived from sorted keys are sorted except that a cut item may equal/precede a
	// sibling; sort to be safe
	sort.Strings(items)
	return items
}

const opaquePrefix = "tok:"

// KeysPrefix implements storage.Store.
func (v *View) KeysPrefix(_ context.Context, token, prefix, delimiter string, count int) ([]string, string, error) {
	if _, err := v.pre("list", prefix, false); err != nil {
		return nil, "", err
	}
	w := v.s.w
	w.mu.Lock()
	defer w.mu.Unlock()
	items := ListItems(v.s.sortedKeysLocked(), prefix, delimiter)
	start := 0
	if token != "" {
		if w.Cfg.StartKeyToken {
			start = sort.SearchStrings(items, token) // first item >= token
		} else {
			if !strings.HasPrefix(token, opaquePrefix) {
				err := status.ErrStorageAPI.Wrap(fmt.Errorf("googleapi: Error 400: Invalid page token %q", token))
				v.record(Event{Op: "list", Key: prefix, Arg: token, Err: errStr(err)})
				return nil, "", err
			}
			after := token[len(opaquePrefix):]
			start = sort.Search(len(items), func(i int) bool { return items[i] > after })
		}
	}
	if count <= 0 {
		count = 1000
	}
	end := start + count
	if end > len(items) {
		end = len(items)
	}
	page := append([]string(nil), items[start:end]...)
	next := ""
	more := end < len(items) || (w.Cfg.LazyLastPage && len(page) == count && len(page) > 0)
	if more {
		if w.Cfg.StartKeyToken {
			if end < len(items) {
				next = items[end]
			} else {
				next = items[end-1] + "\x00"
			}
		} else {
			next = opaquePrefix + items[end-1]
		}
	}
	v.record(Event{Op: "list", Key: prefix, Arg: fmt.Sprintf("tok=%q delim=%q count=%d", token, delimiter, count), N: len(page)})
	return page, next, nil
}

// StepClock is a virtual clock that advances by Step() every time it is read (no sleeping needed to
// let seconds, or look-back windows, pass).
type StepClock struct {
	mu   sync.Mutex
	t    time.Time
	Step func() time.Duration
	// Handed records every time the clock gave out.
	Handed []time.Time
}

// NewStepClock starts at t.
func NewStepClock(t time.Time, step func() time.Duration) *StepClock {
	return &StepClock{t: t, Step: step}
}

// Now advances the clock and returns the new time.
func (c *StepClock) Now() time.Time {
	c.mu.Lock()
	defer c.mu.Unlock()
	c.t = c.t.Add(c.Step())
	c.Handed = append(c.Handed, c.t)
	return c.t
}

// Times returns the times handed out so far.
func (c *StepClock) Times() []time.Time {
	c.mu.Lock()
	defer c.mu.Unlock()
	return append([]time.Time(nil), c.Handed...)
}
