package c12

import (
	"fmt"
	"math/rand"
	"os"
	"sort"
	"strings"
	"sync"
	"testing"
	"time"

	"gopkg.in/yaml.v2"

	"github.com/oneconcern/datamon/pkg/core"
	"github.com/oneconcern/datamon/pkg/model"

	"verifharness/coreh"
	"verifharness/drv"
	"verifharness/gen"
	"verifharness/memstore"
)

// C12 — a diamond commits at most once, from completed splits only.
//
// The real implementation is driven through enumerated interleavings (client A parked inside its i-th
// store call while client B runs to completion, or to its j-th call), through crashes at every store write
// of Commit and Split.Upload followed by retries and a late cancel, and through randomised stress. The
// recorded history (client-boundary call/return positions in the store's linearisation order + the store
// log) is checked offline:
//   (i)   at most one bundle descriptor lands in the (fresh) repository;
//   (ii)  a Commit / CreateSplit called after a terminal diamond-done write landed fails;
//   (iii) CreateSplit on a split whose split-done landed before the call fails, and of several runs of one
//         split ID at most one Upload succeeds;
//   (iv)  a committed bundle holds exactly the merge of the generations named in split-done of every split
//         completed before the commit's first store call (splits completing during the commit may be in or
//         out), and nothing from a run that did not complete.

type opSpec struct {
	Op    string `json:"op"`    // commit | cancel | split-upload | create-split
	Split string `json:"split"` // for split ops
	Run   string `json:"run"`   // distinguishes runs of the same split ID
}

type params struct {
	Mode   string   `json:"mode"` // gate1 | gate2 | crash | stress
	Pre    []string `json:"pre_completed_splits"`
	A, B   opSpec
	I, J   int      `json:"-"`
	Late   []opSpec `json:"late_ops"`
	Stress []opSpec `json:"stress_ops,omitempty"`
	Seed   int64    `json:"seed"`
	MaxI   int      `json:"max_i"` // gate positions are enumerated inside the case, up to MaxI (0 = all)
	// LateFaults: the late clients' first read of every state file fails once
	LateFaults string `json:"late_clients_hit_a_read_fault_on,omitempty"` // "" | diamond-done | split-done
	// Batch > 0: commits list the splits with this page size
	Batch   int `json:"commit_listing_batch_size,omitempty"`
	SampleJ int `json:"sample_j"`
}

func gen12(seed int64, tier string) []drv.Case {
	r := gen.Rand(seed, "c12")
	var cs []drv.Case
	add := func(class string, p params) {
		p.Seed = r.Int63()
		if len(cs)%3 == 1 {
			p.Batch = []int{1, 2, 3, 5}[r.Intn(4)]
		}
		// late clients whose first read of a state file fails once (never in the crash families: their late
		// commits deterministically exhibit known finding 2)
		if strings.HasPrefix(class, "gate1") && len(cs)%2 == 0 {
			p.LateFaults = []string{"diamond-done", "split-done"}[(len(cs)/2)%2]
		} else if class == "stress" && len(cs)%3 == 0 {
			p.LateFaults = []string{"diamond-done", "split-done"}[r.Intn(2)]
		}
		cs = append(cs, drv.Case{ID: fmt.Sprintf("%s-%d", class, len(cs)), Class: class, Params: drv.MustJSON(p)})
	}
	commit := opSpec{Op: "commit"}
	cancel := opSpec{Op: "cancel"}
	up := func(s, run string) opSpec { return opSpec{Op: "split-upload", Split: s, Run: run} }
	cr := func(s string) opSpec { return opSpec{Op: "create-split", Split: s} }
	late := []opSpec{commit, cancel}
	pairs := []struct {
		pre  []string
		a, b opSpec
	}{
		{[]string{"s1", "s2"}, commit, commit},
		{[]string{"s1", "s2"}, commit, cancel},
		{[]string{"s1", "s2"}, cancel, commit},
		{[]string{"s2"}, commit, up("s1", "a")},
		{[]string{"s2"}, up("s1", "a"), commit},
		{[]string{"s2"}, up("s1", "a"), up("s1", "b")},
		{[]string{"s2"}, up("s1", "a"), cancel},
		{[]string{"s2"}, cancel, up("s1", "a")},
		{[]string{"s1", "s2"}, commit, cr("s3")},
		{[]string{"s1", "s2"}, cr("s3"), commit},
		{[]string{"s1"}, commit, up("s1", "b")},
		{[]string{"s1"}, up("s1", "b"), commit},
	}
	for _, pr := range pairs {
		add("gate1:"+pr.a.Op+"||"+pr.b.Op, params{Mode: "gate1", Pre: pr.pre, A: pr.a, B: pr.b, Late: late})
	}
	sj := 6
	if tier == "thorough" {
		sj = 0
	}
	add("gate2:commit||commit", params{Mode: "gate2", Pre: []string{"s1", "s2"}, A: commit, B: commit, Late: late, SampleJ: sj})
	add("gate2:commit||split-upload", params{Mode: "gate2", Pre: []string{"s2"}, A: commit, B: up("s1", "a"), Late: late, SampleJ: sj})
	if tier == "thorough" {
		add("gate2:split-upload||split-upload", params{Mode: "gate2", Pre: []string{"s2"}, A: up("s1", "a"), B: up("s1", "b"), Late: late})
		add("gate2:split-upload||commit", params{Mode: "gate2", Pre: []string{"s2"}, A: up("s1", "a"), B: commit, Late: late})
		add("gate2:cancel||commit", params{Mode: "gate2", Pre: []string{"s1", "s2"}, A: cancel, B: commit, Late: late})
	}
	// crash enumeration: every store write of the operation, then retries and a late cancel
	add("crash:commit", params{Mode: "crash", Pre: []string{"s1", "s2"}, A: commit, Late: []opSpec{commit, commit, cancel}})
	add("crash:commit-then-cancel", params{Mode: "crash", Pre: []string{"s1", "s2"}, A: commit, Late: []opSpec{cancel, commit}})
	add("crash:split-upload", params{Mode: "crash", Pre: []string{"s2"}, A: up("s1", "a"), Late: []opSpec{up("s1", "b"), up("s1", "c"), commit, cancel}})
	add("crash:split-upload-then-commit", params{Mode: "crash", Pre: []string{"s2"}, A: up("s1", "a"), Late: []opSpec{commit, up("s1", "b"), commit}})
	// randomised stress
	ns := 12
	if tier == "thorough" {
		ns = 400
	}
	for i := 0; i < ns; i++ {
		k := 3 + r.Intn(4)
		var ops []opSpec
		pool := []opSpec{commit, commit, cancel, up("s1", "a"), up("s1", "b"), up("s2", "a"), up("s3", "a"), cr("s4")}
		for j := 0; j < k; j++ {
			o := pool[r.Intn(len(pool))]
			if o.Op == "split-upload" {
				o.Run = fmt.Sprintf("%s%d", o.Run, j)
			}
			ops = append(ops, o)
		}
		pre := [][]string{{"s1"}, {"s1", "s2"}, {"s2"}}[r.Intn(3)]
		add("stress", params{Mode: "stress", Pre: pre, Stress: ops, Late: late})
	}
	return cs
}

type client struct {
	spec          opSpec
	actor         *memstore.Actor
	callSeq       int64
	retSeq        int64 // 0 while open (crashed clients stay open to the end of the history)
	err           error
	createErr     error // for split-upload: result of the CreateSplit step
	createCallSeq int64
	done          chan struct{}
	bundle        string
}

type scenario struct {
	p        params
	env      *coreh.Env
	diamond  string
	clients  []*client
	mu       sync.Mutex
	runFiles map[string]coreh.Tree
	baseLog  []memstore.Event // events of the world this scenario was cloned from (clones start with an empty log)
}

func treeFor(seed int64, split, run string) coreh.Tree {
	t := coreh.Tree{}
	if gen.Rand(seed, "empty/"+split+"/"+run).Intn(5) == 0 {
		return t // a run that finds nothing to upload (empty source, filter without match) still completes its split
	}
	for _, pth := range []string{"shared/a", "shared/b", "only-" + split} {
		t[pth] = gen.Bytes(seed, split+"/"+run+"/"+pth, 40+len(run))
	}
	return t
}

func newScenario(p params) *scenario {
	s := &scenario{p: p, env: coreh.NewEnv(memstore.Config{}), runFiles: map[string]coreh.Tree{}}
	must := func(err error) {
		if err != nil {
			panic(fmt.Sprintf("set-up failed: %v", err))
		}
	}
	must(s.env.CreateRepo(nil, "r"))
	d, err := s.env.CreateDiamond(nil, "r", "")
	must(err)
	s.diamond = d.DiamondID
	for _, sp := range p.Pre {
		t := treeFor(p.Seed, sp, "pre")
		s.runFiles[sp+"/pre"] = t
		_, err := s.env.SplitUpload(memstore.NewActor("pre-"+sp), "r", s.diamond, sp, s.env.MemConsumable("src-"+sp+"-pre", t).For(nil), 2)
		must(err)
	}
	return s
}

func (s *scenario) clone() *scenario {
	n := &scenario{p: s.p, env: s.env.Clone(), diamond: s.diamond, runFiles: map[string]coreh.Tree{}, baseLog: append(append([]memstore.Event(nil), s.baseLog...), s.env.W.Log(0)...)}
	for k, v := range s.runFiles {
		n.runFiles[k] = v
	}
	return n
}

// start launches an operation as its own client; the call position is recorded before invoking.
func (s *scenario) start(spec opSpec, name string, prep func(a *memstore.Actor)) *client {
	c := &client{spec: spec, actor: memstore.NewActor(name), done: make(chan struct{})}
	if prep != nil {
		prep(c.actor)
	}
	s.mu.Lock()
	s.clients = append(s.clients, c)
	s.mu.Unlock()
	env := s.env
	c.callSeq = env.W.Seq()
	go func() {
		defer close(c.done)
		switch spec.Op {
		case "commit":
			var copts []core.Option
			if s.p.Batch > 0 {
				copts = append(copts, core.BatchSize(s.p.Batch))
			}
			d, err := env.Commit(c.actor, "r", s.diamond, model.IgnoreConflicts, copts...)
			if d != nil {
				c.bundle = d.BundleID
			}
			c.err = err
		case "cancel":
			c.err = env.Cancel(c.actor, "r", s.diamond)
		case "create-split":
			c.createCallSeq = c.callSeq
			_, c.err = env.CreateSplit(c.actor, "r", s.diamond, spec.Split, env.W.Store("none").For(nil), 1)
			c.createErr = c.err
		case "split-upload":
			t := treeFor(s.p.Seed, spec.Split, spec.Run)
			s.mu.Lock()
			s.runFiles[spec.Split+"/"+spec.Run] = t
			s.mu.Unlock()
			src := env.MemConsumable("src-"+spec.Split+"-"+spec.Run+"-"+name, t)
			c.createCallSeq = c.callSeq
			h, err := env.CreateSplit(c.actor, "r", s.diamond, spec.Split, src.For(nil), 2)
			c.createErr = err
			if err != nil {
				c.err = err
				break
			}
			c.err = h.S.Upload()
		}
		c.retSeq = env.W.Seq()
	}()
	return c
}

func wait(c *client, d time.Duration) bool {
	select {
	case <-c.done:
		return true
	case <-c.actor.Dead():
		return true
	case <-time.After(d):
		return false
	}
}

// judge checks the recorded history.
func (s *scenario) judge(res *drv.Result, where string) {
	env := s.env
	log := append(append([]memstore.Event(nil), s.baseLog...), env.W.Log(0)...)
	doneKey := model.GetArchivePathToFinalDiamond("r", s.diamond)
	var doneLanded int64
	doneBy := ""
	splitDone := map[string]int64{}    // split -> seq when split-done landed
	splitDoneBy := map[string]string{} // split -> actor
	bundleBy := map[string]string{}    // bundle id -> actor that landed its descriptor
	firstCall := map[string]int64{}
	lastCall := map[string]int64{}
	for _, e := range log {
		if _, ok := firstCall[e.Actor]; !ok {
			firstCall[e.Actor] = e.Seq
		}
		lastCall[e.Actor] = e.Seq
		if !e.Landed {
			continue
		}
		switch {
		case e.Store == "vmeta" && e.Key == doneKey && doneLanded == 0:
			doneLanded, doneBy = e.Seq, e.Actor
		case e.Store == "vmeta" && strings.HasSuffix(e.Key, "/split-done.yaml"):
			sp := strings.Split(e.Key, "/")[4]
			if _, ok := splitDone[sp]; !ok {
				splitDone[sp], splitDoneBy[sp] = e.Seq, e.Actor
			}
		case e.Store == "meta" && strings.HasPrefix(e.Key, "bundles/r/") && strings.HasSuffix(e.Key, "/bundle.yaml"):
			bundleBy[strings.Split(e.Key, "/")[2]] = e.Actor
		}
	}
	byActor := map[string]*client{}
	for _, c := range s.clients {
		byActor[c.actor.Name] = c
	}
	// readyBefore: did the commit pass its readiness check before any terminal descriptor landed?
	readySeq := func(actor string) int64 {
		for _, e := range log {
			if e.Actor == actor && e.Op == "get" && strings.HasSuffix(e.Key, "/diamond-running.yaml") {
				return e.Seq
			}
		}
		return 0
	}

	// (i) at most one bundle
	var bundles []string
	for id := range bundleBy {
		bundles = append(bundles, id)
	}
	sort.Strings(bundles)
	res.Stat(fmt.Sprintf("schedules_ending_with_%d_bundle(s)", len(bundles)), 1)
	if os.Getenv("VERIF_DEBUG") != "" {
		fmt.Fprintf(os.Stderr, "JUDGE %s: bundles=%d doneLanded=%d by %s\n", where, len(bundles), doneLanded, doneBy)
		for _, c := range s.clients {
			fmt.Fprintf(os.Stderr, "   client %s op=%s call=%d ret=%d err=%v dead=%v\n", c.actor.Name, c.spec.Op, c.callSeq, c.retSeq, c.err, c.actor.IsDead())
		}
	}
	if len(bundles) > 1 {
		allReadyBeforeDone, anyCrashed := true, false
		var desc []string
		for _, id := range bundles {
			a := bundleBy[id]
			rs := readySeq(a)
			if rs == 0 || (doneLanded != 0 && rs > doneLanded) {
				allReadyBeforeDone = false
			}
			crashed := byActor[a] != nil && byActor[a].actor.IsDead()
			anyCrashed = anyCrashed || crashed
			desc = append(desc, fmt.Sprintf("%s by %s (ready-check at #%d, crashed=%v)", id[len(id)-6:], a, rs, crashed))
		}
		sig := "commit-accepted-after-terminal-state"
		if allReadyBeforeDone && anyCrashed {
			sig = "crashed-after-bundle-descriptor-then-retry|every-commit-passed-ready-check-before-any-diamond-done"
		} else if allReadyBeforeDone {
			sig = "commit||commit|every-commit-passed-ready-check-before-any-diamond-done"
		}
		res.Violate("two-bundles", sig, "%s: diamond %s produced %d bundles: %s; first diamond-done landed at #%d by %s", where, s.diamond[len(s.diamond)-6:], len(bundles), strings.Join(desc, "; "), doneLanded, doneBy)
	}
	// (ii) refusals after a terminal state
	for _, c := range s.clients {
		if doneLanded == 0 || c.retSeq == 0 {
			continue
		}
		switch c.spec.Op {
		case "commit":
			if c.callSeq > doneLanded && c.err == nil {
				res.Violate("commit-after-terminal-state-accepted", "commit", "%s: commit by %s was called at #%d, after diamond-done landed at #%d (by %s), and succeeded", where, c.actor.Name, c.callSeq, doneLanded, doneBy)
			}
		case "create-split", "split-upload":
			if c.createCallSeq > doneLanded && c.createErr == nil {
				res.Violate("split-after-terminal-state-accepted", c.spec.Op, "%s: CreateSplit(%s) by %s was called at #%d, after diamond-done landed at #%d, and succeeded", where, c.spec.Split, c.actor.Name, c.createCallSeq, doneLanded)
			}
		}
	}
	// (iii) completed splits cannot be rerun; at most one successful run per split
	okRuns := map[string][]string{}
	for _, c := range s.clients {
		if c.spec.Op != "split-upload" && c.spec.Op != "create-split" {
			continue
		}
		if sd, ok := splitDone[c.spec.Split]; ok && c.retSeq != 0 && c.createCallSeq > sd && c.createErr == nil {
			res.Violate("completed-split-rerun-accepted", c.spec.Op, "%s: CreateSplit(%s) by %s called at #%d, after split-done landed at #%d, succeeded", where, c.spec.Split, c.actor.Name, c.createCallSeq, sd)
		}
		if c.spec.Op == "split-upload" && c.retSeq != 0 && c.err == nil {
			okRuns[c.spec.Split] = append(okRuns[c.spec.Split], c.actor.Name)
		}
	}
	for _, sp := range s.p.Pre {
		okRuns[sp] = append(okRuns[sp], "pre-"+sp)
	}
	for sp, rs := range okRuns {
		if len(rs) > 1 {
			res.Violate("two-successful-runs-of-one-split", "upload", "%s: split %s: %d runs returned success: %v", where, sp, len(rs), rs)
		}
	}
	// (iv) provenance of the committed content
	vm := env.VMeta.Snapshot()
	genFiles := func(sp string) (map[string]string, bool) { // path -> hash of the completed generation
		raw, ok := vm[model.GetArchivePathToFinalSplit("r", s.diamond, sp)]
		if !ok {
			return nil, false
		}
		var sd model.SplitDescriptor
		if yaml.Unmarshal(raw, &sd) != nil {
			return nil, false
		}
		out := map[string]string{}
		for i := uint64(0); i < sd.SplitEntriesFileCount; i++ {
			var be model.BundleEntries
			if yaml.Unmarshal(vm[model.GetArchivePathToSplitFileList("r", s.diamond, sp, sd.GenerationID, i)], &be) != nil {
				return nil, false
			}
			for _, e := range be.BundleEntries {
				out[e.NameWithPath] = e.Hash + "@" + e.Timestamp.Format(time.RFC3339Nano)
			}
		}
		return out, true
	}
	for _, id := range bundles {
		committer := bundleBy[id]
		_, ents, err := env.Entries(nil, "r", id)
		if err != nil {
			res.Violate("bundle-unreadable", "provenance", "%s: bundle %s: %v", where, id, err)
			continue
		}
		start, end := firstCall[committer], lastCall[committer]
		var before, during []string
		for sp, sq := range splitDone {
			switch {
			case sq < start:
				before = append(before, sp)
			case sq <= end:
				during = append(during, sp)
			}
		}
		sort.Strings(during)
		got := map[string]string{}
		for _, e := range ents {
			got[e.NameWithPath] = e.Hash
		}
		matched := false
		var wants []string
		for mask := 0; mask < 1<<uint(len(during)); mask++ {
			set := append([]string(nil), before...)
			for i, sp := range during {
				if mask&(1<<uint(i)) != 0 {
					set = append(set, sp)
				}
			}
			// latest write wins per path
			type ver struct{ hash, ts string }
			best := map[string]ver{}
			for _, sp := range set {
				fs, ok := genFiles(sp)
				if !ok {
					continue
				}
				for pth, hv := range fs {
					parts := strings.SplitN(hv, "@", 2)
					if b, ok := best[pth]; !ok || parts[1] > b.ts {
						best[pth] = ver{parts[0], parts[1]}
					}
				}
			}
			want := map[string]string{}
			for pth, v := range best {
				want[pth] = v.hash
			}
			wants = append(wants, fmt.Sprint(len(want)))
			if fmt.Sprint(want) == fmt.Sprint(got) {
				matched = true
				break
			}
		}
		if !matched {
			res.Violate("committed-content-provenance", "not-the-completed-generations", "%s: bundle %s committed by %s holds %d entries that are not the merge of the completed generations of splits %v (+ any of %v that completed during the commit)", where, id[len(id)-6:], committer, len(got), before, during)
		}
	}
}

func run12(c drv.Case, res *drv.Result) {
	var p params
	drv.Params(c, &p)
	base := newScenario(p)
	res.Canon = string(c.Params)
	const patience = 60 * time.Second
	late := func(s *scenario) bool {
		for i, o := range p.Late {
			var prep func(*memstore.Actor)
			if p.LateFaults != "" {
				// the first read of each state file by a late client fails once (transient store fault): a done or canceled
				// diamond must not look freshly initialized because of it
				prep = func(a *memstore.Actor) {
					failed := map[string]int{}
					var mu sync.Mutex
					a.SetFault(func(c memstore.Call) error {
						if c.Op != "get" || !strings.Contains(c.Key, p.LateFaults) {
							return nil
						}
						mu.Lock()
						defer mu.Unlock()
						// the client reads the diamond's state twice (once to clone its descriptor, as the CLI does, once
						// in the readiness check of the operation itself): both reads are hit
						if failed[c.Key] >= 2 {
							return nil
						}
						// split descriptors: only the first split this client reads is hit (a fault on every split leaves the
						// client nothing to work with; a fault on one of several must not make that one split vanish)
						if p.LateFaults == "split-done" && failed[c.Key] == 0 && len(failed) > 0 {
							return nil
						}
						failed[c.Key]++
						res.Stat("state_file_reads_failed_once", 1)
						return memstore.ErrInjected
					})
				}
			}
			cl := s.start(o, fmt.Sprintf("late%d-%s", i, o.Op), prep)
			if !wait(cl, patience) {
				return false
			}
		}
		// the same late operations once more, fault-free (a client that was refused because of the fault retries)
		if p.LateFaults != "" {
			for i, o := range p.Late {
				cl := s.start(o, fmt.Sprintf("later%d-%s", i, o.Op), nil)
				if !wait(cl, patience) {
					return false
				}
			}
		}
		return true
	}
	countCalls := func(spec opSpec) int {
		s := base.clone()
		cl := s.start(spec, "dry", nil)
		if !wait(cl, patience) {
			return 0
		}
		n, _ := cl.actor.Calls()
		return n
	}
	schedules := int64(0)
	switch p.Mode {
	case "gate1", "gate2":
		nA := countCalls(p.A)
		nB := countCalls(p.B)
		if nA == 0 || nB == 0 {
			res.Skipped = "dry run did not finish"
			return
		}
		r := rand.New(rand.NewSource(p.Seed))
		for i := 1; i <= nA; i++ {
			js := []int{0}
			if p.Mode == "gate2" {
				js = nil
				for j := 1; j <= nB; j++ {
					js = append(js, j)
				}
				if p.SampleJ > 0 && len(js) > p.SampleJ {
					r.Shuffle(len(js), func(a, b int) { js[a], js[b] = js[b], js[a] })
					js = js[:p.SampleJ]
				}
			}
			for _, j := range js {
				s := base.clone()
				var ga, gb *memstore.Gate
				a := s.start(p.A, "A-"+p.A.Op, func(ac *memstore.Actor) { ga = ac.GateAt(i) })
				select {
				case <-ga.Parked():
				case <-a.done: // fewer calls on this path: nothing to interleave at this position
					continue
				case <-time.After(patience):
					res.Skipped = "client A neither parked nor returned"
					return
				}
				b := s.start(p.B, "B-"+p.B.Op, func(ac *memstore.Actor) {
					if j > 0 {
						gb = ac.GateAt(j)
					}
				})
				if j > 0 {
					select {
					case <-gb.Parked():
					case <-b.done:
					case <-time.After(patience):
						res.Skipped = "client B neither parked nor returned"
						return
					}
					ga.Release()
					if !wait(a, patience) {
						res.Skipped = "client A did not finish"
						return
					}
					gb.Release()
					if !wait(b, patience) {
						res.Skipped = "client B did not finish"
						return
					}
				} else {
					if !wait(b, patience) {
						res.Skipped = "client B did not finish while A was parked"
						return
					}
					ga.Release()
					if !wait(a, patience) {
						res.Skipped = "client A did not finish"
						return
					}
				}
				if !late(s) {
					res.Skipped = "late operations did not finish"
					return
				}
				schedules++
				res.Seen("interleaving", fmt.Sprintf("%s:A@%d/B@%d", c.Class, i, j))
				s.judge(res, fmt.Sprintf("%s with A parked in its store call %d of %d%s", c.Class, i, nA, map[bool]string{true: fmt.Sprintf(", B parked in its call %d of %d while A completed", j, nB), false: " while B ran to completion"}[j > 0]))
				if len(res.Violations) > 30 {
					break
				}
			}
		}
		res.Stat("gate_schedules_run", schedules)
	case "crash":
		s0 := base.clone()
		dry := s0.start(p.A, "dry", nil)
		if !wait(dry, patience) {
			res.Skipped = "dry run did not finish"
			return
		}
		_, W := dry.actor.Calls()
		for k := 1; k <= W; k++ {
			for _, after := range []bool{false, true} {
				s := base.clone()
				v := s.start(p.A, "victim-"+p.A.Op, func(ac *memstore.Actor) { ac.CrashAt(k, after) })
				if !wait(v, patience) {
					res.Skipped = "victim neither crashed nor returned"
					return
				}
				time.Sleep(time.Millisecond)
				if !late(s) {
					res.Skipped = "late operations did not finish"
					return
				}
				schedules++
				op, key := v.actor.CrashPoint()
				kc := "blob"
				switch {
				case strings.HasSuffix(key, "bundle.yaml"):
					kc = "bundle-descriptor"
				case strings.Contains(key, "diamond-done"):
					kc = "diamond-done"
				case strings.Contains(key, "split-done"):
					kc = "split-done"
				case strings.Contains(key, "bundle-files-"):
					kc = "file-list"
				case strings.HasPrefix(key, "vmeta:") || strings.HasPrefix(key, "meta:"):
					kc = "other-metadata"
				}
				res.Seen("crash_point", fmt.Sprintf("%s:%v:%s", p.A.Op, after, kc))
				s.judge(res, fmt.Sprintf("%s crashed %s its store write %d of %d (%s %s), then %v", p.A.Op, map[bool]string{true: "after", false: "before"}[after], k, W, op, key, p.Late))
			}
		}
		res.Stat("crash_points_enumerated", schedules)
	case "stress":
		s := base.clone()
		r := rand.New(rand.NewSource(p.Seed))
		var cls []*client
		var rmu sync.Mutex
		for i, o := range p.Stress {
			cls = append(cls, s.start(o, fmt.Sprintf("c%d-%s", i, o.Op), func(ac *memstore.Actor) {
				ac.SetDelay(func() time.Duration {
					rmu.Lock()
					defer rmu.Unlock()
					return time.Duration(r.Intn(400)) * time.Microsecond
				})
			}))
		}
		for _, cl := range cls {
			if !wait(cl, patience) {
				res.Skipped = "a stressed client did not finish"
				return
			}
		}
		if !late(s) {
			res.Skipped = "late operations did not finish"
			return
		}
		schedules++
		var order []string
		for _, e := range s.env.W.Log(0) {
			if strings.HasPrefix(e.Actor, "c") && (e.Op == "put" || e.Op == "putx") {
				order = append(order, e.Actor[:2])
			}
		}
		res.Seen("write_interleaving", strings.Join(order, ""))
		s.judge(res, fmt.Sprintf("stress with %d concurrent clients %v", len(p.Stress), p.Stress))
		res.Stat("stress_runs", 1)
	}
	res.Nontrivial = schedules > 0
	res.Evals, res.Distinct = schedules-1, schedules-1
	if schedules == 0 {
		res.Evals, res.Distinct = 0, 0
	}
	res.Sample = map[string]interface{}{"mode": p.Mode, "pre_completed_splits": p.Pre, "A": p.A, "B": p.B, "late": p.Late, "stress": p.Stress, "schedules_or_crash_points": schedules}
}

func TestC12(t *testing.T) {
	drv.Main(t, drv.Driver{ID: "C12", Gen: gen12, Run: run12, CaseTimeout: 30 * time.Minute})
}
