//go:build verif
// +build verif

// Package cafsh has helpers shared by the cafs drivers (C01..C03): content sources with controlled
// chunking, sinks, the Write-progress monitor, and leaf arithmetic.
package cafsh

import (
	"bytes"
	"context"
	"fmt"
	"io"
	"math/rand"
	"sync"
	"testing/iotest"

	"go.uber.org/zap"

	"github.com/oneconcern/datamon/pkg/cafs"
	"github.com/oneconcern/datamon/pkg/storage"
	"github.com/oneconcern/datamon/pkg/verifhook"

	"verifharness/drv"
)

// Source describes how content is handed to Put.
type Source struct {
	Kind  string `json:"kind"`  // single | wt-fixed | wt-rand | rd-fixed | rd-rand | eof-together | onebyte | half | dataerr
	Chunk int    `json:"chunk"` // for fixed kinds
	Seed  int64  `json:"seed"`
}

type onlyReader struct{ io.Reader }

type chunkReader struct {
	data []byte
	next func(remaining int) int
	eofT bool // return io.EOF together with the last bytes
}

func (c *chunkReader) Read(p []byte) (int, error) {
	if len(c.data) == 0 {
		return 0, io.EOF
	}
	n := c.next(len(c.data))
	if n > len(p) {
		n = len(p)
	}
	if n > len(c.data) {
		n = len(c.data)
	}
	if n < 1 {
		n = 1
	}
	copy(p, c.data[:n])
	c.data = c.data[n:]
	if c.eofT && len(c.data) == 0 {
		return n, io.EOF
	}
	return n, nil
}

// writerToSource hands the content to the destination in writes of chosen sizes (io.Copy uses WriteTo).
type writerToSource struct {
	data []byte
	next func(remaining int) int
	// MaxWrite records the largest single write issued.
	MaxWrite int
}

func (w *writerToSource) Read(p []byte) (int, error) { panic("io.Copy should use WriteTo") }

func (w *writerToSource) WriteTo(dst io.Writer) (int64, error) {
	var total int64
	for len(w.data) > 0 {
		n := w.next(len(w.data))
		if n > len(w.data) {
			n = len(w.data)
		}
		if n < 1 {
			n = 1
		}
		if n > w.MaxWrite {
			w.MaxWrite = n
		}
		m, err := dst.Write(w.data[:n])
		total += int64(m)
		if err != nil {
			return total, err
		}
		if m != n {
			return total, io.ErrShortWrite
		}
		w.data = w.data[n:]
	}
	return total, nil
}

// Reader builds the io.Reader for a source; the second result reports the largest single Write it may issue.
func (s Source) Reader(content []byte, leaf int) (io.Reader, int) {
	r := rand.New(rand.NewSource(s.Seed))
	fixed := func(int) int { return s.Chunk }
	rnd := func(int) int { return 1 + r.Intn(3*leaf) }
	switch s.Kind {
	case "single":
		return bytes.NewReader(content), len(content)
	case "wt-fixed":
		return &writerToSource{data: content, next: fixed}, s.Chunk
	case "wt-rand":
		return &writerToSource{data: content, next: rnd}, 3 * leaf
	case "rd-fixed":
		return onlyReader{&chunkReader{data: content, next: fixed}}, min(s.Chunk, 32*1024)
	case "rd-rand":
		return onlyReader{&chunkReader{data: content, next: rnd}}, 32 * 1024
	case "eof-together":
		return onlyReader{&chunkReader{data: content, next: fixed, eofT: true}}, min(s.Chunk, 32*1024)
	case "onebyte":
		return onlyReader{iotest.OneByteReader(bytes.NewReader(content))}, 1
	case "half":
		return onlyReader{iotest.HalfReader(bytes.NewReader(content))}, 16 * 1024
	case "dataerr":
		return onlyReader{iotest.DataErrReader(bytes.NewReader(content))}, 32 * 1024
	}
	panic("unknown source kind " + s.Kind)
}

func min(a, b int) int {
	if a < b {
		return a
	}
	return b
}

// PlainWriter hides every optional interface of the buffer (no WriterAt, no ReaderFrom).
type PlainWriter struct{ B bytes.Buffer }

func (p *PlainWriter) Write(b []byte) (int, error) { return p.B.Write(b) }

// AtWriter is an in-memory io.WriterAt (also an io.Writer, as files are).
type AtWriter struct {
	mu   sync.Mutex
	Data []byte
	Seq  int64
}

func (a *AtWriter) WriteAt(p []byte, off int64) (int, error) {
	a.mu.Lock()
	defer a.mu.Unlock()
	if off < 0 {
		return 0, fmt.Errorf("negative offset")
	}
	end := int(off) + len(p)
	if end > len(a.Data) {
		a.Data = append(a.Data, make([]byte, end-len(a.Data))...)
	}
	copy(a.Data[off:], p)
	return len(p), nil
}

func (a *AtWriter) Write(p []byte) (int, error) {
	n, err := a.WriteAt(p, a.Seq)
	a.Seq += int64(n)
	return n, err
}

// InstallWriteProgressMonitor makes a Write loop iteration that neither consumes input nor completes
// a leaf abort the operation (instead of spinning forever). Returns a function reporting iterations seen.
func InstallWriteProgressMonitor() func() int64 {
	var mu sync.Mutex
	var iters int64
	verifhook.Set(func(point string, kv ...interface{}) {
		if point != "cafs.write.iter" || len(kv) < 5 {
			return
		}
		copied, offset, leaf, written, total := kv[0].(int), kv[1].(int), kv[2].(int), kv[3].(int), kv[4].(int)
		mu.Lock()
		iters++
		mu.Unlock()
		if copied == 0 && offset != leaf && written != total {
			panic(drv.Abort{V: drv.Violation{Kind: "write-stall", Sig: "write-stall|Write-loop-makes-no-progress",
				Msg: fmt.Sprintf("cafs fsWriter.Write: iteration copied 0 bytes with %d of %d input bytes consumed and the leaf buffer at %d/%d: the loop cannot terminate", written, total, offset, leaf)}})
		}
	})
	return func() int64 { mu.Lock(); defer mu.Unlock(); return iters }
}

// NewFs builds a cafs over a store, silent logger, no retry.
func NewFs(store storage.Store, leaf uint32, opts ...cafs.Option) (cafs.Fs, error) {
	all := append([]cafs.Option{cafs.LeafSize(leaf), cafs.Backend(store), cafs.Logger(zap.NewNop()), cafs.WithRetry(false)}, opts...)
	return cafs.New(all...)
}

// LenClass classifies a length against the leaf size (for signatures and coverage).
func LenClass(n, leaf int) string {
	switch {
	case n == 0:
		return "empty"
	case n < leaf:
		return "lt-leaf"
	case n%leaf == 0:
		return "k-leaf"
	case n%leaf == 1:
		return "k-leaf+1"
	case n%leaf == leaf-1:
		return "k-leaf-1"
	}
	return "k-leaf+r"
}

// Put stores content through the source.
func Put(fs cafs.Fs, content []byte, leaf int, src Source) (cafs.PutRes, error) {
	r, _ := src.Reader(content, leaf)
	return fs.Put(context.Background(), r)
}
