package c22

import (
	"fmt"
	"math"
	"sort"
	"strings"
	"sync"
	"testing"

	"github.com/oneconcern/datamon/pkg/filetracker"

	"verifharness/drv"
	"verifharness/gen"
)

// C22 — the write-range tracker records exactly the written ranges.
//
// Oracle: a bitmap of written offsets. After every write of a sequence, for every offset o in
// [0, max+2] and lengths L in {1, 2, max}: (n, src) = getRangeToRead(o, L) must satisfy
// src == modified <=> bitmap[o], 1 <= n <= L, bitmap[o..o+n) constant.

type write struct{ Off, Len int64 }

type params struct {
	Mode   string  `json:"mode"` // "exhaustive" | "random"
	First  *write  `json:"first,omitempty"`
	MaxOff int64   `json:"max_off"`
	MinLen int64   `json:"min_len"`
	MaxLen int64   `json:"max_len"`
	Depth  int     `json:"depth"`
	Seq    []write `json:"seq,omitempty"`              // random mode / replay of a minimal witness
	Base   int64   `json:"high_region_base,omitempty"` // mode huge: the high region is [Base-20, Base+64)
}

func gen22(seed int64, tier string) []drv.Case {
	var cs []drv.Case
	add := func(class string, p params) {
		cs = append(cs, drv.Case{ID: fmt.Sprintf("%s-%d", class, len(cs)), Class: class, Params: drv.MustJSON(p)})
	}
	// exhaustive blocks: one per first write
	maxOff, maxLen, depth := int64(6), int64(4), 4
	for o := int64(0); o <= maxOff; o++ {
		for l := int64(1); l <= maxLen; l++ {
			add("exh-o6-l4-d4", params{Mode: "exhaustive", First: &write{o, l}, MaxOff: maxOff, MinLen: 1, MaxLen: maxLen, Depth: depth})
		}
	}
	if tier == "thorough" {
		for o := int64(0); o <= 5; o++ {
			for l := int64(1); l <= 3; l++ {
				add("exh-o5-l3-d5", params{Mode: "exhaustive", First: &write{o, l}, MaxOff: 5, MinLen: 1, MaxLen: 3, Depth: 5})
			}
		}
	}
	// zero-length writes, exhaustive small: lengths 0..2, offsets 0..4, depth 4
	for o := int64(0); o <= 4; o++ {
		for l := int64(0); l <= 2; l++ {
			add("exh-zero-o4-l2-d4", params{Mode: "exhaustive", First: &write{o, l}, MaxOff: 4, MinLen: 0, MaxLen: 2, Depth: 4})
		}
	}
	// files larger than 4 GiB: writes around 2^31, 2^32, 2^33 and 2^40 (also straddling those marks) mixed with writes
	// at the beginning of the file
	nh := 120
	if tier == "thorough" {
		nh = 4000
	}
	rh := gen.Rand(seed, "c22-huge")
	for i := 0; i < nh; i++ {
		base := []int64{1 << 31, 1 << 32, 1 << 32, 1 << 33, 1 << 40}[rh.Intn(5)]
		var seq []write
		for j := 0; j < 2+rh.Intn(6); j++ {
			if rh.Intn(3) == 0 {
				seq = append(seq, write{int64(rh.Intn(30)), 1 + int64(rh.Intn(12))})
			} else {
				seq = append(seq, write{base - 20 + int64(rh.Intn(40)), 1 + int64(rh.Intn(12))})
			}
		}
		add("huge-offsets", params{Mode: "huge", Seq: seq, Base: base})
	}
	// enormous tracked ranges and gaps (sparse files): lengths and distances around 2^31, 2^32, 2^53 (where a float64
	// stops being exact) and 2^62, odd values included; judged against an interval model, not a bitmap
	ns := 150
	if tier == "thorough" {
		ns = 6000
	}
	rs := gen.Rand(seed, "c22-spans")
	bigs := []int64{1 << 31, 1 << 32, 1 << 53, 1 << 53, 1 << 54, 1 << 60, 1 << 62}
	big := func() int64 { return bigs[rs.Intn(len(bigs))] + int64(rs.Intn(9)) - 4 }
	for i := 0; i < ns; i++ {
		var seq []write
		for j := 0; j < 1+rs.Intn(5); j++ {
			var off, l int64
			switch rs.Intn(4) {
			case 0:
				off = int64(rs.Intn(30))
			case 1:
				off = big()
			default:
				off = big() + int64(rs.Intn(1<<20))
			}
			if rs.Intn(2) == 0 {
				l = 1 + int64(rs.Intn(40))
			} else {
				l = big()
			}
			if off > math.MaxInt64-l-2 {
				l = math.MaxInt64 - off - 2 - int64(rs.Intn(5))
			}
			seq = append(seq, write{off, l})
		}
		add("huge-spans", params{Mode: "spans", Seq: seq})
	}
	// concurrent writers (parallel WriteFile requests on one file): disjoint ranges tracked by several goroutines at once
	nc := 40
	if tier == "thorough" {
		nc = 1500
	}
	rc := gen.Rand(seed, "c22-conc")
	for i := 0; i < nc; i++ {
		var seq []write
		for j := 0; j < 40+rc.Intn(200); j++ {
			seq = append(seq, write{int64(j)*50 + int64(rc.Intn(10)), 1 + int64(rc.Intn(30))})
		}
		add("concurrent-writers", params{Mode: "concurrent", Seq: seq, Depth: 2 + rc.Intn(15)})
	}
	// random long sequences
	n := 400
	if tier == "thorough" {
		n = 20000
	}
	r := gen.Rand(seed, "c22")
	for i := 0; i < n; i++ {
		k := 2 + r.Intn(7)
		minLen := int64(1)
		class := "rand"
		if i%5 == 4 {
			minLen, class = 0, "rand-zero"
		}
		var seq []write
		for j := 0; j < k; j++ {
			seq = append(seq, write{int64(r.Intn(61)), minLen + int64(r.Intn(int(21-minLen)))})
		}
		add(class, params{Mode: "random", Seq: seq})
	}
	return cs
}

func seqStr(seq []write) string {
	var sb strings.Builder
	for _, w := range seq {
		fmt.Fprintf(&sb, "[%d,%d)", w.Off, w.Off+w.Len)
	}
	return sb.String()
}

// relation of the last write to the union of the earlier ones, for the signature.
func relation(bm []bool, w write) string {
	if w.Len == 0 {
		return "zero-length"
	}
	get := func(i int64) bool { return i >= 0 && i < int64(len(bm)) && bm[i] }
	inside, outside := false, false
	for i := w.Off; i < w.Off+w.Len; i++ {
		if get(i) {
			inside = true
		} else {
			outside = true
		}
	}
	switch {
	case inside && outside:
		return "overlapping"
	case inside:
		return "contained"
	}
	adjB, adjA := get(w.Off-1), get(w.Off+w.Len)
	switch {
	case adjB && adjA:
		return "fills-gap"
	case adjB:
		return "starts-at-previous-end"
	case adjA:
		return "ends-at-previous-start"
	}
	return "disjoint"
}

// check compares the tracker with the bitmap; returns a violation kind/msg or "".
func check(t *filetracker.TFile, bm []bool, hi int64, queries *int64) (string, string) {
	get := func(i int64) bool { return i >= 0 && i < int64(len(bm)) && bm[i] }
	for o := int64(0); o <= hi+2; o++ {
		// "as much as possible" requests: lengths up to the largest int64, and offset+length beyond it
		for _, L := range []int64{1, 2, hi + 3, math.MaxInt64 - o, math.MaxInt64 - o + 1, math.MaxInt64} {
			if L < 1 {
				continue
			}
			*queries++
			n, mod := t.VerifGetRangeToRead(o, L)
			if mod != get(o) {
				if get(o) {
					return "modified-reported-as-base", fmt.Sprintf("getRangeToRead(%d,%d)=(%d,base) but offset %d was written", o, L, n, o)
				}
				return "base-reported-as-modified", fmt.Sprintf("getRangeToRead(%d,%d)=(%d,modified) but offset %d was never written", o, L, n, o)
			}
			if n < 1 || n > L {
				return "bad-length", fmt.Sprintf("getRangeToRead(%d,%d) returned length %d", o, L, n)
			}
			end := o + n
			if end < o || end > int64(len(bm))+2 {
				end = int64(len(bm)) + 2 // everything beyond the last write is base data
			}
			for i := o; i < end; i++ {
				if get(i) != get(o) {
					return "range-crosses-boundary", fmt.Sprintf("getRangeToRead(%d,%d)=(%d,%v) crosses a modified/unmodified boundary at %d", o, L, n, mod, i)
				}
			}
		}
	}
	return "", ""
}

func apply(bm []bool, w write) []bool {
	nb := append([]bool(nil), bm...)
	for int64(len(nb)) < w.Off+w.Len {
		nb = append(nb, false)
	}
	for i := w.Off; i < w.Off+w.Len; i++ {
		nb[i] = true
	}
	return nb
}

func run22(c drv.Case, res *drv.Result) {
	var p params
	drv.Params(c, &p)
	var queries int64
	reported := map[string]bool{}
	report := func(kind, msg string, seq []write, before []bool) {
		rel := relation(before, seq[len(seq)-1])
		sig := rel
		if reported[kind+sig] {
			return
		}
		reported[kind+sig] = true
		res.Violate(kind, sig, "after writes %s: %s", seqStr(seq), msg)
	}
	switch p.Mode {
	case "concurrent":
		// Depth goroutines share the writes of Seq (disjoint ranges, 50 apart); afterwards every offset is judged
		t := filetracker.VerifNewTFile()
		var wg sync.WaitGroup
		start := make(chan struct{})
		for g := 0; g < p.Depth; g++ {
			wg.Add(1)
			go func(g int) {
				defer wg.Done()
				<-start
				for i := g; i < len(p.Seq); i += p.Depth {
					t.VerifTrackWrite(p.Seq[i].Off, p.Seq[i].Len)
				}
			}(g)
		}
		close(start)
		wg.Wait()
		var bm []bool
		for _, w := range p.Seq {
			bm = apply(bm, w)
		}
		for o := int64(0); o < int64(len(bm))+3; o++ {
			queries++
			want := o < int64(len(bm)) && bm[o]
			n, mod := t.VerifGetRangeToRead(o, 1000)
			bad := ""
			switch {
			case mod != want && want:
				bad = "modified-reported-as-base"
			case mod != want:
				bad = "base-reported-as-modified"
			case n < 1 || n > 1000:
				bad = "bad-length"
			default:
				for c := o + 1; c < o+n && c < int64(len(bm)); c++ {
					if bm[c] != want {
						bad = "range-crosses-boundary"
						break
					}
				}
			}
			if bad != "" {
				res.Violate(bad, "concurrent-writers", "after %d disjoint writes tracked by %d goroutines at once: getRangeToRead(%d,1000)=(%d,modified=%v), offset written=%v", len(p.Seq), p.Depth, o, n, mod, want)
				return
			}
		}
		res.Nontrivial = true
		res.Canon = fmt.Sprint(p.Depth, seqStr(p.Seq))
		res.Sample = map[string]interface{}{"writes": len(p.Seq), "goroutines": p.Depth, "queries": queries}
	case "spans":
		t := filetracker.VerifNewTFile()
		var iv [][2]int64 // disjoint, sorted, non-adjacent union of the writes
		in := func(o int64) bool {
			for _, x := range iv {
				if o >= x[0] && o < x[1] {
					return true
				}
			}
			return false
		}
		next := func(o int64) int64 { // first offset > o where the classification changes (MaxInt64: none)
			for _, x := range iv {
				if o < x[0] {
					return x[0]
				}
				if o < x[1] {
					return x[1]
				}
			}
			return math.MaxInt64
		}
		for wi, w := range p.Seq {
			t.VerifTrackWrite(w.Off, w.Len)
			lo, hi := w.Off, w.Off+w.Len
			var merged [][2]int64
			for _, x := range iv {
				if x[1] < lo || x[0] > hi {
					merged = append(merged, x)
					continue
				}
				if x[0] < lo {
					lo = x[0]
				}
				if x[1] > hi {
					hi = x[1]
				}
			}
			merged = append(merged, [2]int64{lo, hi})
			sort.Slice(merged, func(a, b int) bool { return merged[a][0] < merged[b][0] })
			iv = merged
			var cells []int64
			for _, x := range iv {
				for d := int64(-2); d <= 2; d++ {
					cells = append(cells, x[0]+d, x[1]+d)
				}
			}
			cells = append(cells, 0, 1)
			for _, o := range cells {
				if o < 0 || o >= math.MaxInt64-2 {
					continue
				}
				dist := next(o) - o
				for _, L := range []int64{1, 2, dist - 1, dist, dist + 1, dist + 2, 1<<53 + 1, math.MaxInt64 - o} {
					if L < 1 || L > math.MaxInt64-o {
						continue
					}
					queries++
					n, mod := t.VerifGetRangeToRead(o, L)
					bad := ""
					switch {
					case mod != in(o) && in(o):
						bad = "modified-reported-as-base"
					case mod != in(o):
						bad = "base-reported-as-modified"
					case n < 1 || n > L:
						bad = "bad-length"
					case n > dist:
						bad = "range-crosses-boundary"
					}
					if bad != "" {
						res.Violate(bad, "huge-spans", "after writes %s: getRangeToRead(%d,%d)=(%d,modified=%v), offset written=%v, next boundary at %d (distance %d)", seqStr(p.Seq[:wi+1]), o, L, n, mod, in(o), next(o), dist)
						res.Canon = seqStr(p.Seq)
						return
					}
				}
			}
		}
		res.Nontrivial = true
		res.Canon = seqStr(p.Seq)
		res.Sample = map[string]interface{}{"writes": seqStr(p.Seq), "queries": queries}
	case "huge":
		t := filetracker.VerifNewTFile()
		written := map[int64]bool{}
		lo, hiEnd := p.Base-20, p.Base+64
		get := func(i int64) bool { return written[i] }
		// cells where the classification may change: both regions and their edges
		var cells []int64
		for i := int64(0); i <= 64; i++ {
			cells = append(cells, i)
		}
		for i := lo - 1; i <= hiEnd+1; i++ {
			cells = append(cells, i)
		}
		for wi, w := range p.Seq {
			t.VerifTrackWrite(w.Off, w.Len)
			for i := w.Off; i < w.Off+w.Len; i++ {
				written[i] = true
			}
			for _, o := range cells {
				if o < 0 {
					continue
				}
				for _, L := range []int64{1, 2, 50, 1 << 33, math.MaxInt64 - o} {
					queries++
					n, mod := t.VerifGetRangeToRead(o, L)
					bad := ""
					switch {
					case mod != get(o) && get(o):
						bad = "modified-reported-as-base"
					case mod != get(o):
						bad = "base-reported-as-modified"
					case n < 1 || n > L:
						bad = "bad-length"
					default:
						for _, c := range cells {
							if c > o && c < o+n && get(c) != get(o) {
								bad = "range-crosses-boundary"
								break
							}
						}
					}
					if bad != "" {
						res.Violate(bad, "huge-offsets", "after writes %s: getRangeToRead(%d,%d)=(%d,modified=%v), offset written=%v (high region around %d)", seqStr(p.Seq[:wi+1]), o, L, n, mod, get(o), p.Base)
						res.Canon = seqStr(p.Seq)
						return
					}
				}
			}
		}
		res.Nontrivial = len(p.Seq) >= 2
		res.Canon = seqStr(p.Seq) + fmt.Sprint(p.Base)
		res.Sample = map[string]interface{}{"writes": seqStr(p.Seq), "queries": queries, "high_region_base": p.Base}
	case "random":
		t := filetracker.VerifNewTFile()
		var bm []bool
		hi := int64(0)
		for i, w := range p.Seq {
			before := bm
			t.VerifTrackWrite(w.Off, w.Len)
			bm = apply(bm, w)
			if w.Off+w.Len > hi {
				hi = w.Off + w.Len
			}
			if k, m := check(t, bm, hi, &queries); k != "" {
				report(k, m, p.Seq[:i+1], before)
				break
			}
		}
		res.Nontrivial = len(p.Seq) >= 2
		res.Canon = seqStr(p.Seq)
		res.Sample = map[string]interface{}{"writes": seqStr(p.Seq), "queries": queries}
	case "exhaustive":
		var count, distinct int64
		var rec func(t *filetracker.TFile, bm []bool, hi int64, seq []write)
		rec = func(t *filetracker.TFile, bm []bool, hi int64, seq []write) {
			count++
			if len(seq) >= 2 {
				distinct++
			}
			if len(seq) == p.Depth {
				return
			}
			for o := int64(0); o <= p.MaxOff; o++ {
				for l := p.MinLen; l <= p.MaxLen; l++ {
					w := write{o, l}
					nt := t.VerifClone()
					nt.VerifTrackWrite(o, l)
					nb := apply(bm, w)
					nh := hi
					if o+l > nh {
						nh = o + l
					}
					ns := append(append([]write(nil), seq...), w)
					if k, m := check(nt, nb, nh, &queries); k != "" {
						report(k, m, ns, bm)
						count++
						continue // extensions of a failing sequence add nothing
					}
					rec(nt, nb, nh, ns)
				}
			}
		}
		t := filetracker.VerifNewTFile()
		t.VerifTrackWrite(p.First.Off, p.First.Len)
		bm := apply(nil, *p.First)
		hi := p.First.Off + p.First.Len
		seq := []write{*p.First}
		if k, m := check(t, bm, hi, &queries); k != "" {
			report(k, m, seq, nil)
		} else {
			rec(t, bm, hi, seq)
		}
		res.Evals = count - 1
		res.Distinct = distinct
		res.Nontrivial = false // counted through Distinct
		res.Canon = c.ID
		if len(res.Violations) == 0 {
			res.Stat("exhaustive_complete", 1)
		}
		res.Sample = map[string]interface{}{"first_write": seqStr(seq), "offsets": fmt.Sprintf("0..%d", p.MaxOff),
			"lengths": fmt.Sprintf("%d..%d", p.MinLen, p.MaxLen), "max_writes": p.Depth, "sequences_enumerated": count, "queries": queries}
	}
	res.Stat("tracker_queries_checked", queries)
}

func TestC22(t *testing.T) {
	drv.Main(t, drv.Driver{ID: "C22", Gen: gen22, Run: run22})
}
