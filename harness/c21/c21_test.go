package c21

import (
	"fmt"
	"sort"
	"strconv"
	"strings"
	"testing"
	"unicode/utf8"

	"github.com/oneconcern/datamon/pkg/sidecar/param"

	"verifharness/drv"
	"verifharness/gen"
)

// C21 — sidecar parameters survive environment-variable encoding.
//
// Oracle: a reference decoder written from the documented format (first rune = item separator,
// second rune = key/value separator, then items; an item without a key/value separator is a flag;
// empty items are ignored, as the shipped zsh decoder does). If encoding returns nil, decoding every
// variable must give exactly the non-empty parameters (short names) and the S flag iff sleep was set,
// and no separator may be '.'. For "ordinary" parameter sets encoding must succeed.

type bundle struct {
	Name, SrcPath, SrcRepo, SrcLabel, SrcBundle, DestPath, DestRepo, DestMessage, DestLabel, DestBundleID string
}

type db struct {
	Name                                                           string
	Port                                                           int
	DestRepo, DestMessage, DestLabel, SrcRepo, SrcLabel, SrcBundle string
}

type params struct {
	Kind    string   `json:"kind"` // fuse | pg
	Sleep   bool     `json:"sleep"`
	Coord   string   `json:"coord"`
	Bucket  string   `json:"bucket"`
	Context string   `json:"context"`
	IgnoreV bool     `json:"ignore_v"`
	Bundles []bundle `json:"bundles,omitempty"`
	DBs     []db     `json:"dbs,omitempty"`
	ValCls  string   `json:"value_class"`
}

const nameChars = "SVabcdfilmprs" // characters of parameter names and flags

func value(r interface{ Intn(int) int }, cls string) string {
	switch cls {
	case "ordinary":
		const al = "abcdefghijklmnopqrstuvwxyz0123456789/_-"
		n := 1 + r.Intn(12)
		b := make([]byte, n)
		for i := range b {
			b[i] = al[r.Intn(len(al))]
		}
		return string(b)
	case "printable":
		n := r.Intn(20)
		b := make([]byte, n)
		for i := range b {
			b[i] = byte(0x21 + r.Intn(0x7e-0x21+1))
		}
		return string(b)
	case "unicode":
		rs := []rune("aé日本語ßЖ-_/0Ω漢字🙂")
		n := 1 + r.Intn(10)
		var sb strings.Builder
		for i := 0; i < n; i++ {
			sb.WriteRune(rs[r.Intn(len(rs))])
		}
		return sb.String()
	}
	return "x"
}

// exhausting returns a string holding every character from '0' to hi.
func exhausting(hi byte) string {
	var sb strings.Builder
	for c := byte('0'); c <= hi; c++ {
		sb.WriteByte(c)
	}
	return sb.String()
}

func gen21(seed int64, tier string) []drv.Case {
	n := 3000
	if tier == "thorough" {
		n = 200000
	}
	r := gen.Rand(seed, "c21")
	var cs []drv.Case
	classes := []string{"ordinary", "printable", "unicode", "exhausting", "exhausting"}
	for i := 0; i < n; i++ {
		cls := classes[i%len(classes)]
		vcls := cls
		if cls == "exhausting" {
			vcls = "ordinary"
		}
		v := func() string { return value(r, vcls) }
		opt := func() string {
			if r.Intn(3) == 0 {
				return ""
			}
			return v()
		}
		nonEmpty := func() string {
			for {
				if s := v(); s != "" {
					return s
				}
			}
		}
		p := params{Sleep: r.Intn(2) == 0, Coord: nonEmpty(), ValCls: cls}
		var exh string
		if cls == "exhausting" {
			// every bound from '0' up to '~' is reached over the run; bias towards the letters
			lo := byte('0')
			if r.Intn(2) == 0 {
				lo = 'Q'
			}
			exh = exhausting(lo + byte(r.Intn(int('~'-lo)+1)))
		}
		if i%2 == 0 {
			p.Kind = "fuse"
			p.Bucket, p.Context = nonEmpty(), nonEmpty()
			if cls != "ordinary" && r.Intn(15) == 0 {
				p.Bucket = "" // required value missing: encoding must fail
			}
			nb := r.Intn(5)
			for j := 0; j < nb; j++ {
				b := bundle{Name: fmt.Sprintf("bd%d", j), SrcPath: opt(), SrcRepo: opt(), DestPath: opt()}
				if r.Intn(2) == 0 {
					b.SrcLabel = opt()
				} else {
					b.SrcBundle = opt()
				}
				if r.Intn(2) == 0 {
					b.DestRepo, b.DestMessage = nonEmpty(), nonEmpty()
					b.DestLabel, b.DestBundleID = opt(), opt()
				}
				p.Bundles = append(p.Bundles, b)
			}
			if exh != "" {
				switch r.Intn(3) {
				case 0:
					p.Coord = exh
				case 1:
					p.Context = exh
				default:
					if len(p.Bundles) == 0 {
						p.Bundles = append(p.Bundles, bundle{Name: "bd0"})
					}
					p.Bundles[0].SrcPath = exh
				}
			}
		} else {
			p.Kind = "pg"
			p.IgnoreV = r.Intn(2) == 0
			nd := r.Intn(4)
			for j := 0; j < nd; j++ {
				d := db{Name: fmt.Sprintf("db%d", j), Port: 1 + r.Intn(65535), DestRepo: nonEmpty(), DestMessage: nonEmpty(), DestLabel: opt(), SrcRepo: opt()}
				if r.Intn(2) == 0 {
					d.SrcLabel = opt()
				} else {
					d.SrcBundle = opt()
				}
				p.DBs = append(p.DBs, d)
			}
			if exh != "" {
				if len(p.DBs) > 0 && r.Intn(2) == 0 {
					p.DBs[0].DestMessage = exh
				} else {
					p.Coord = exh
				}
			}
		}
		cs = append(cs, drv.Case{ID: fmt.Sprintf("%s-%s-%d", p.Kind, cls, i), Class: p.Kind + "-" + cls, Params: drv.MustJSON(p)})
	}
	return cs
}

// decode is the reference decoder.
func decode(s string) (itemSep, kvSep rune, kv map[string]string, flags map[string]bool, err error) {
	kv, flags = map[string]string{}, map[string]bool{}
	itemSep, n1 := utf8.DecodeRuneInString(s)
	if n1 == 0 || itemSep == utf8.RuneError {
		return 0, 0, kv, flags, fmt.Errorf("no item separator")
	}
	kvSep, n2 := utf8.DecodeRuneInString(s[n1:])
	if n2 == 0 || kvSep == utf8.RuneError {
		return itemSep, 0, kv, flags, fmt.Errorf("no key/value separator")
	}
	for _, item := range strings.Split(s[n1+n2:], string(itemSep)) {
		if item == "" {
			continue
		}
		if i := strings.Index(item, string(kvSep)); i >= 0 {
			kv[item[:i]] = item[i+len(string(kvSep)):]
		} else {
			flags[item] = true
		}
	}
	return itemSep, kvSep, kv, flags, nil
}

func fmtMap(m map[string]string, f map[string]bool) string {
	var ks []string
	for k, v := range m {
		ks = append(ks, k+"="+strconv.Quote(v))
	}
	for k := range f {
		ks = append(ks, "flag:"+strconv.Quote(k))
	}
	sort.Strings(ks)
	return strings.Join(ks, " ")
}

func put(m map[string]string, k, v string) {
	if v != "" {
		m[k] = v
	}
}

func run21(c drv.Case, res *drv.Result) {
	var p params
	drv.Params(c, &p)
	expect := map[string]struct {
		kv    map[string]string
		flags map[string]bool
	}{}
	var env map[string]string
	var err error
	mustSucceed := p.ValCls == "ordinary"
	globalsFlags := map[string]bool{}
	if p.Sleep {
		globalsFlags["S"] = true
	}
	switch p.Kind {
	case "fuse":
		fp, e := param.NewFUSEParams(param.FUSECoordPoint(p.Coord), param.FUSEConfigBucketName(p.Bucket), param.FUSEContextName(p.Context))
		if e != nil {
			res.Skipped = "constructor refused: " + e.Error()
			return
		}
		fp.Globals.SleepInsteadOfExit = p.Sleep
		for _, b := range p.Bundles {
			opts := []param.FUSEParamsBDOption{param.BDName(b.Name)}
			if b.SrcBundle != "" {
				opts = append(opts, param.BDSrcByBundleID(b.SrcPath, b.SrcRepo, b.SrcBundle))
			} else {
				opts = append(opts, param.BDSrcByLabel(b.SrcPath, b.SrcRepo, b.SrcLabel))
			}
			opts = append(opts, param.BDDest(b.DestRepo, b.DestMessage, b.DestPath))
			if b.DestLabel != "" {
				opts = append(opts, param.BDDestLabel(b.DestLabel))
			}
			if b.DestBundleID != "" {
				opts = append(opts, param.BDDestBundleIDFile(b.DestBundleID))
			}
			if e := fp.AddBundle(opts...); e != nil {
				res.Skipped = "AddBundle refused: " + e.Error()
				return
			}
			m := map[string]string{}
			put(m, "sp", b.SrcPath)
			put(m, "sr", b.SrcRepo)
			put(m, "sl", b.SrcLabel)
			put(m, "sb", b.SrcBundle)
			put(m, "dp", b.DestPath)
			put(m, "dr", b.DestRepo)
			put(m, "dm", b.DestMessage)
			put(m, "dl", b.DestLabel)
			put(m, "dif", b.DestBundleID)
			expect["dm_fuse_bd_"+b.Name] = struct {
				kv    map[string]string
				flags map[string]bool
			}{m, map[string]bool{}}
		}
		g := map[string]string{}
		put(g, "c", p.Coord)
		put(g, "b", p.Bucket)
		put(g, "a", p.Context)
		expect["dm_fuse_opts"] = struct {
			kv    map[string]string
			flags map[string]bool
		}{g, globalsFlags}
		env, err = param.FUSEParamsToEnvVars(fp)
		if p.Bucket == "" || p.Context == "" {
			if err == nil {
				res.Violate("missing-required-accepted", "fuse", "encoding succeeded although a required global is empty: %q", env["dm_fuse_opts"])
			}
			res.Nontrivial, res.Canon = false, string(c.Params)
			res.Stat("encodings_refused", 1)
			return
		}
	case "pg":
		pp, e := param.NewPGParams(param.PGCoordPoint(p.Coord))
		if e != nil {
			res.Skipped = "constructor refused: " + e.Error()
			return
		}
		pp.Globals.SleepInsteadOfExit = p.Sleep
		pp.Globals.IgnorePGVersionMismatch = p.IgnoreV
		for _, d := range p.DBs {
			opts := []param.PGParamsDBOption{param.DBNameAndPort(d.Name, d.Port), param.DBDest(d.DestRepo, d.DestMessage)}
			if d.DestLabel != "" {
				opts = append(opts, param.DBDestLabel(d.DestLabel))
			}
			if d.SrcBundle != "" {
				opts = append(opts, param.DBSrcByBundle(d.SrcRepo, d.SrcBundle))
			} else {
				opts = append(opts, param.DBSrcByLabel(d.SrcRepo, d.SrcLabel))
			}
			if e := pp.AddDatabase(opts...); e != nil {
				res.Skipped = "AddDatabase refused: " + e.Error()
				return
			}
			m := map[string]string{"p": strconv.Itoa(d.Port)}
			put(m, "m", d.DestMessage)
			put(m, "l", d.DestLabel)
			put(m, "r", d.DestRepo)
			put(m, "sl", d.SrcLabel)
			put(m, "sr", d.SrcRepo)
			put(m, "sb", d.SrcBundle)
			expect["dm_pg_db_"+d.Name] = struct {
				kv    map[string]string
				flags map[string]bool
			}{m, map[string]bool{}}
		}
		g := map[string]string{"V": strconv.FormatBool(p.IgnoreV)}
		put(g, "c", p.Coord)
		expect["dm_pg_opts"] = struct {
			kv    map[string]string
			flags map[string]bool
		}{g, globalsFlags}
		env, err = param.PGParamsToEnvVars(pp)
	}
	res.Canon = string(c.Params)
	if err != nil {
		res.Stat("encodings_refused", 1)
		if mustSucceed {
			res.Violate("ordinary-set-refused", p.Kind, "encoding of an ordinary parameter set failed: %v", err)
		}
		return
	}
	res.Nontrivial = true
	res.Stat("encodings_decoded", 1)
	if len(env) != len(expect) {
		res.Violate("variable-set", p.Kind, "got %d variables, expected %d", len(env), len(expect))
	}
	for name, want := range expect {
		s, ok := env[name]
		if !ok {
			res.Violate("variable-missing", p.Kind, "variable %s missing", name)
			continue
		}
		is, ks, kv, flags, derr := decode(s)
		res.Stat("variables_decoded", 1)
		res.Seen("item_separators", string(is))
		where := "other"
		if strings.ContainsRune(nameChars, is) || strings.ContainsRune(nameChars, ks) {
			where = "separator-is-a-parameter-name-character"
		}
		if derr != nil {
			res.Violate("undecodable", where, "%s=%q: %v", name, s, derr)
			continue
		}
		if is == '.' || ks == '.' || is == ks {
			res.Violate("bad-separator", where, "%s=%q uses separators %q %q", name, s, is, ks)
		}
		if fmtMap(kv, flags) != fmtMap(want.kv, want.flags) {
			res.Violate("decode-mismatch", where, "%s=%q (separators %q %q) decodes to {%s}, parameters given were {%s}",
				name, s, is, ks, fmtMap(kv, flags), fmtMap(want.kv, want.flags))
		}
	}
	if len(res.Violations) > 0 || c.ID[len(c.ID)-1] == '7' {
		res.Sample = map[string]interface{}{"params": p, "env": env}
	}
	if res.Sample == nil {
		res.Sample = map[string]interface{}{"env": env}
	}
}

func TestC21(t *testing.T) {
	drv.Main(t, drv.Driver{ID: "C21", Gen: gen21, Run: run21})
}
