package c05

import (
	"context"
	"crypto/sha256"
	"fmt"
	"math/rand"
	"os"
	"path/filepath"
	"sort"
	"strings"
	"testing"
	"time"

	"github.com/oneconcern/datamon/pkg/core"
	"github.com/oneconcern/datamon/pkg/model"

	"verifharness/cafsh"
	"verifharness/coreh"
	"verifharness/drv"
	"verifharness/gen"
	"verifharness/memstore"
)

// C05 — bundle diff and in-place update are exact.
//
// Oracle: Diff(local copy of A, remote B).Entries as a multiset == {Add: paths in B\A, Del: A\B, Dif:
// paths in both with different content}, each once, with the right Existing/Additional entries. After
// Update(src=B, dest=local copy of A) the destination's files and bytes equal a fresh Publish of B into
// an empty directory, including the files under .datamon/ (B's descriptor and file lists, none of A's).

type params struct {
	A, B     coreh.TreeSpec
	Leaf     uint32 `json:"leaf"`
	Kind     string `json:"kind"`
	DownConc int    `json:"download_concurrency"`
}

const MiB = 1 << 20

func gen05(seed int64, tier string) []drv.Case {
	r := gen.Rand(seed, "c05")
	var cs []drv.Case
	n := 60
	if tier == "thorough" {
		n = 1500
	}
	kinds := []string{"identical", "disjoint", "subset", "superset", "mixed", "mixed", "mixed", "renames", "a-empty", "b-empty", "both-empty"}
	for i := 0; i < n; i++ {
		kind := kinds[i%len(kinds)]
		leaf, size, tiny := 4096, r.Intn(40), false
		big := (tier == "thorough" && i%25 == 0) || (tier != "thorough" && i == 5)
		if big {
			leaf, size, tiny = 2*MiB, 1000+r.Intn(201), true
		}
		useed := r.Int63()
		u := coreh.GenTree(r, useed, size+2, coreh.TreeOpt{Leaf: leaf, Tiny: tiny, DupRatio: 6})
		a := coreh.TreeSpec{Seed: useed}
		b := coreh.TreeSpec{Seed: useed}
		for j, f := range u.Files {
			inA, inB, same := true, true, true
			switch kind {
			case "identical":
			case "disjoint":
				inA, inB = j%2 == 0, j%2 == 1
			case "subset":
				inB = r.Intn(3) != 0
			case "superset":
				inA = r.Intn(3) != 0
			case "mixed":
				x := r.Intn(10)
				inA, inB, same = x != 0 && x != 1, x != 2 && x != 3, x < 7
			case "renames":
				if r.Intn(3) == 0 { // the same content under another path in B
					a.Files = append(a.Files, f)
					g := f
					g.Path = "renamed/" + f.Path
					b.Files = append(b.Files, g)
					continue
				}
			case "a-empty":
				inA = false
			case "b-empty":
				inB = false
			case "both-empty":
				inA, inB = false, false
			}
			if inA {
				a.Files = append(a.Files, f)
			}
			if inB {
				g := f
				if !same {
					g.Label = f.Label + "-changed"
					if r.Intn(2) == 0 && !tiny {
						g.Len = f.Len + 1 + r.Intn(10)
					}
				}
				b.Files = append(b.Files, g)
			}
		}
		p := params{A: a, B: b, Leaf: uint32(leaf), Kind: kind, DownConc: []int{1, 2, 3, 10}[r.Intn(4)]}
		cls := kind
		if big {
			cls += "-over-1000-files"
		}
		cs = append(cs, drv.Case{ID: fmt.Sprintf("%s-%d", cls, i), Class: cls, Params: drv.MustJSON(p)})
	}
	return cs
}

func norm(p string) string { return strings.TrimPrefix(strings.TrimPrefix(p, "./"), "/") }

func tmp(prefix string) string {
	d, err := os.MkdirTemp(os.Getenv("VERIF_SCRATCH"), prefix)
	if err != nil {
		panic(err)
	}
	return d
}

// dirSignature summarises a directory tree (paths, sizes, modification times).
func dirSignature(dir string) string {
	var sb strings.Builder
	_ = filepath.Walk(dir, func(p string, info os.FileInfo, err error) error {
		if err == nil {
			fmt.Fprintf(&sb, "%s|%d|%d\n", p, info.Size(), info.ModTime().UnixNano())
		}
		return nil
	})
	return sb.String()
}

// copyDir copies a directory tree.
func copyDir(src, dst string) error {
	return filepath.Walk(src, func(p string, info os.FileInfo, err error) error {
		if err != nil {
			return err
		}
		rel, _ := filepath.Rel(src, p)
		if info.IsDir() {
			return os.MkdirAll(filepath.Join(dst, rel), 0o755)
		}
		b, err := os.ReadFile(p)
		if err != nil {
			return err
		}
		return os.WriteFile(filepath.Join(dst, rel), b, info.Mode())
	})
}

func run05(c drv.Case, res *drv.Result) {
	var p params
	drv.Params(c, &p)
	cafsh.InstallWriteProgressMonitor()
	env := coreh.NewEnv(memstore.Config{})
	if err := env.CreateRepo(nil, "repo"); err != nil {
		panic(err)
	}
	ctx := context.Background()
	ta, tb := p.A.Tree(), p.B.Tree()
	up := func(name string, t coreh.Tree) string {
		id, err := env.Upload(nil, "repo", env.MemConsumable(name, t).For(nil), coreh.UploadOpts{Leaf: p.Leaf, Concurrency: 4, Message: name})
		if err != nil {
			panic(fmt.Sprintf("set-up upload failed: %v", err))
		}
		return id
	}
	idA, idB := up("srcA", ta), up("srcB", tb)
	_, entA, err := env.Entries(nil, "repo", idA)
	if err != nil {
		panic(err)
	}
	_, entB, err := env.Entries(nil, "repo", idB)
	if err != nil {
		panic(err)
	}
	hashA, hashB := map[string]model.BundleEntry{}, map[string]model.BundleEntry{}
	for _, e := range entA {
		hashA[norm(e.NameWithPath)] = e
	}
	for _, e := range entB {
		hashB[norm(e.NameWithPath)] = e
	}

	// local copy of A
	dirA := tmp("c05-A-")
	defer os.RemoveAll(dirA)
	if err := env.Publish(nil, "repo", idA, coreh.LocalFS(dirA), p.DownConc); err != nil {
		res.Violate("setup", "publish-A", "download of A failed: %v", err)
		return
	}

	// ---- Diff(local A, remote B)
	local := core.NewBundle(core.ConsumableStore(coreh.LocalFS(dirA)), core.Logger(coreh.Nop))
	remote := env.ReadBundle(nil, "repo", idB, nil, p.DownConc)
	diff, err := core.Diff(ctx, local, remote)
	if err != nil {
		res.Violate("diff-failed", p.Kind, "Diff failed: %v", err)
		return
	}
	want := map[string]string{} // path -> A|D|U
	for n := range tb {
		if _, ok := ta[n]; !ok {
			want[n] = "A"
		} else if sha256.Sum256(ta[n]) != sha256.Sum256(tb[n]) {
			want[n] = "U"
		}
	}
	for n := range ta {
		if _, ok := tb[n]; !ok {
			want[n] = "D"
		}
	}
	got := map[string]int{}
	for _, de := range diff.Entries {
		n := norm(de.Name)
		got[n]++
		typ := core.DiffEntryType(de.Type).String()
		w, ok := want[n]
		switch {
		case !ok:
			res.Violate("diff-spurious-entry", typ, "diff reports %s %q but the path is identical in both bundles (or in neither)", typ, n)
		case w != typ:
			res.Violate("diff-wrong-type", w+"-reported-as-"+typ, "diff reports %s for %q, expected %s", typ, n, w)
		default:
			if (typ == "D" || typ == "U") && de.Existing.Hash != hashA[n].Hash {
				res.Violate("diff-entry-content", "existing", "diff entry %q: Existing does not carry A's entry", n)
			}
			if (typ == "A" || typ == "U") && de.Additional.Hash != hashB[n].Hash {
				res.Violate("diff-entry-content", "additional", "diff entry %q: Additional does not carry B's entry", n)
			}
		}
	}
	for n, k := range got {
		if k > 1 {
			res.Violate("diff-duplicate-entry", "dup", "diff lists %q %d times", n, k)
		}
	}
	for n, w := range want {
		if got[n] == 0 {
			res.Violate("diff-missing-entry", w, "diff does not report %s %q", w, n)
		}
	}
	res.Stat("diff_entries_checked", int64(len(diff.Entries)))
	res.Stat("diffs", 1)

	// ---- Update(remote B -> local copy of A) vs fresh download of B
	fresh := tmp("c05-B-")
	defer os.RemoveAll(fresh)
	if err := env.Publish(nil, "repo", idB, coreh.LocalFS(fresh), p.DownConc); err != nil {
		res.Violate("setup", "publish-B", "fresh download of B failed: %v", err)
		return
	}
	localDest := core.NewBundle(core.ConsumableStore(coreh.LocalFS(dirA)), core.Logger(coreh.Nop))
	remoteSrc := env.ReadBundle(nil, "repo", idB, nil, p.DownConc)
	if err := core.Update(ctx, remoteSrc, localDest); err != nil {
		res.Violate("update-failed", p.Kind, "Update(A -> B) failed: %v", err)
		return
	}
	gotTree, err := coreh.ReadDir(dirA)
	if err != nil {
		panic(err)
	}
	wantTree, err := coreh.ReadDir(fresh)
	if err != nil {
		panic(err)
	}
	if d := coreh.DiffTrees(coreh.WithoutMeta(gotTree), coreh.WithoutMeta(wantTree)); d != "" {
		res.Violate("update-mismatch", "data|"+p.Kind, "after Update the directory differs from a fresh download of the target: %s", d)
	}
	metaOf := func(t coreh.Tree) coreh.Tree {
		m := coreh.Tree{}
		for k, v := range t {
			if strings.HasPrefix(k, ".datamon/") {
				m[k] = v
			}
		}
		return m
	}
	if d := coreh.DiffTrees(metaOf(gotTree), metaOf(wantTree)); d != "" {
		res.Violate("update-mismatch", "metadata|"+p.Kind, "after Update the .datamon metadata differs from a fresh download of the target: %s", d)
	}
	res.Stat("updates", 1)
	res.Stat("files_compared", int64(len(wantTree)))
	// ---- the same update under one failing store call: an update that still reports success must equal the fresh
	// download
	if len(res.Violations) == 0 && len(ta)+len(tb) < 200 {
		fr := rand.New(rand.NewSource(int64(len(c.Params))*7919 + int64(len(ta))*31 + int64(len(tb))))
		for rep := 0; rep < 3; rep++ {
			dirF := tmp("c05-F-")
			if err := env.Publish(nil, "repo", idA, coreh.LocalFS(dirF), p.DownConc); err != nil {
				os.RemoveAll(dirF)
				break
			}
			a := memstore.NewActor("updater")
			k := 1 + fr.Intn(12+2*len(tb))
			kind := ""
			a.SetFault(func(c memstore.Call) error {
				if c.Index == k {
					kind = c.Store + "." + c.Op
					return memstore.ErrInjected
				}
				return nil
			})
			uerr := core.Update(ctx, env.ReadBundle(a, "repo", idB, nil, p.DownConc), core.NewBundle(core.ConsumableStore(coreh.LocalFS(dirF)), core.Logger(coreh.Nop)))
			res.Stat("updates_under_a_store_fault", 1)
			if kind != "" {
				res.Seen("faulted_call_kinds", kind)
			}
			stage := "faulted update reporting success"
			if uerr != nil {
				// the failure was reported: the directory is no longer "a local copy of one bundle", and a second Update
				// may legitimately refuse to run on it. But a second, fault-free Update that REPORTS SUCCESS claims the
				// directory is at the target: then it must equal the fresh download.
				res.Stat("updates_reporting_the_fault", 1)
				// Update returns at the first error while its other transfers keep running in this process (a CLI process
				// would exit and take them with it). The retry therefore works on a COPY of the directory that the
				// goroutines of the failed attempt cannot reach, taken once they have gone quiet: no store call of the
				// updater and no change in the directory between three consecutive looks.
				quiet, lastCalls, lastSig := 0, -1, ""
				for look := 0; look < 100 && quiet < 3; look++ {
					time.Sleep(50 * time.Millisecond)
					n, _ := a.Calls()
					sig := dirSignature(dirF)
					if n == lastCalls && sig == lastSig {
						quiet++
					} else {
						quiet, lastCalls, lastSig = 0, n, sig
					}
				}
				if quiet < 3 {
					res.Stat("retries_skipped_failed_update_still_running", 1)
					os.RemoveAll(dirF)
					continue
				}
				dirG := tmp("c05-G-")
				if err := copyDir(dirF, dirG); err != nil {
					panic(err)
				}
				os.RemoveAll(dirF)
				dirF = dirG
				rerr := core.Update(ctx, env.ReadBundle(nil, "repo", idB, nil, p.DownConc), core.NewBundle(core.ConsumableStore(coreh.LocalFS(dirF)), core.Logger(coreh.Nop)))
				if rerr != nil {
					res.Stat("retries_after_a_failed_update_refused", 1)
					os.RemoveAll(dirF)
					continue
				}
				res.Stat("retries_after_a_failed_update_reporting_success", 1)
				stage = "fault-free retry reporting success after a failed update"
			}
			gotF, err := coreh.ReadDir(dirF)
			os.RemoveAll(dirF)
			if err != nil {
				panic(err)
			}
			if d := coreh.DiffTrees(coreh.WithoutMeta(gotF), coreh.WithoutMeta(wantTree)); d != "" {
				res.Violate("update-mismatch", "data|under-fault", "%s (fault on %s, call %d): the directory differs from a fresh download of the target: %s", stage, kind, k, d)
				break
			}
			if d := coreh.DiffTrees(metaOf(gotF), metaOf(wantTree)); d != "" {
				res.Violate("update-mismatch", "metadata|under-fault", "%s (fault on %s, call %d): the .datamon metadata differs from a fresh download of the target: %s", stage, kind, k, d)
				break
			}
		}
	}
	res.Nontrivial = true
	res.Canon = fmt.Sprintf("%x", sha256.Sum256(c.Params))
	res.Seen("overlap_kind", p.Kind)
	var cnt = map[string]int{}
	for _, w := range want {
		cnt[w]++
	}
	var firstA []string
	for n := range ta {
		firstA = append(firstA, n)
	}
	sort.Strings(firstA)
	if len(firstA) > 4 {
		firstA = firstA[:4]
	}
	res.Sample = map[string]interface{}{"kind": p.Kind, "files_A": len(ta), "files_B": len(tb), "expected_diff": cnt, "leaf": p.Leaf, "first_paths_A": firstA}
}

func TestC05(t *testing.T) {
	drv.Main(t, drv.Driver{ID: "C05", Gen: gen05, Run: run05, CaseTimeout: 30 * time.Minute})
}
