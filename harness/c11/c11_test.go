package c11

import (
	"fmt"
	"math/rand"
	"sort"
	"strings"
	"sync"
	"testing"
	"time"

	"gopkg.in/yaml.v2"

	"github.com/oneconcern/datamon/pkg/core"
	"github.com/oneconcern/datamon/pkg/model"
	"github.com/oneconcern/datamon/pkg/verifhook"

	"verifharness/coreh"
	"verifharness/drv"
	"verifharness/gen"
	"verifharness/memstore"
)

// C11 — diamond commit merges splits by latest write, keeping every losing version.
//
// Two independent oracles. (1) Order independence: the store is cloned after the splits are uploaded and
// the commit is run once per arrival order of the split file lists (the Get of every index file is held
// by the driver and released in the chosen order, the next one only after the merger reported, through
// the diamond.merge.batch hook, that it received the previous one); all runs of one mode must give the
// same entries, flags and success. (2) Reference merge written from the property text, computed from the
// split file lists as stored (paths, hashes, upload times datamon wrote).

type splitSpec struct {
	ID    string            `json:"id"`
	Files map[string]string `json:"files"` // path -> content label
}

type params struct {
	Splits    []splitSpec `json:"splits"`
	UploadSeq []int       `json:"upload_order"`
	BigSplit  bool        `json:"split_with_1001_files"`
	Seed      int64       `json:"seed"`
	MaxOrders int         `json:"max_orders"`
	// Batch > 0: the commit lists the splits with this page size (a page may end between the two state files of a split)
	Batch int `json:"listing_batch_size,omitempty"`
	// Overlap: the first split to start is held at its first blob call until every other split has finished, and
	// only then uploads its files (one at a time): it started first and uploaded last
	Overlap bool `json:"first_split_uploads_last,omitempty"`
}

func gen11(seed int64, tier string) []drv.Case {
	r := gen.Rand(seed, "c11")
	n := 30
	if tier == "thorough" {
		n = 900
	}
	var cs []drv.Case
	for i := 0; i < n; i++ {
		k := []int{1, 2, 2, 3, 3, 3, 4, 4, 5, 6, 8}[r.Intn(11)]
		np := 3 + r.Intn(4)
		nc := 3 + r.Intn(2)
		var sp []splitSpec
		emptySplits := 0
		for s := 0; s < k; s++ {
			id := fmt.Sprintf("split-%c", 'a'+(s*7+i)%26) + fmt.Sprint(s)
			fs := map[string]string{}
			for pi := 0; pi < np; pi++ {
				if r.Intn(4) != 0 {
					fs[fmt.Sprintf("dir%d/p%d", pi%2, pi)] = fmt.Sprintf("content-%d", r.Intn(nc))
				}
			}
			if len(fs) == 0 {
				fs["dir0/p0"] = "content-0"
			}
			if r.Intn(3) == 0 {
				fs[fmt.Sprintf("only-%s", id)] = fmt.Sprintf("private-%d", s)
			}
			if k > 1 && r.Intn(7) == 0 {
				fs = map[string]string{} // a completed split that found nothing to upload (empty source, filter without match)
				emptySplits++
			}
			sp = append(sp, splitSpec{ID: id, Files: fs})
		}
		p := params{Splits: sp, UploadSeq: r.Perm(k), Seed: r.Int63(), MaxOrders: 24}
		if i%3 == 1 {
			p.Batch = []int{1, 2, 3, 4, 5, 7}[r.Intn(6)]
		}
		if i%4 == 2 && k > 1 {
			p.Overlap = true
		}
		if (tier == "thorough" && i%30 == 0) || (tier != "thorough" && i == 3) {
			p.BigSplit = true
			p.MaxOrders = 6
		}
		cls := fmt.Sprintf("splits=%d", k)
		if p.BigSplit {
			cls += "+two-index-files"
		}
		if p.Overlap {
			cls += "+overlapping-splits"
		}
		if emptySplits > 0 {
			cls += "+empty-split"
		}
		cs = append(cs, drv.Case{ID: fmt.Sprintf("%s-%d", cls, i), Class: cls, Params: drv.MustJSON(p)})
	}
	return cs
}

type version struct {
	split string
	hash  string
	size  uint64
	t     time.Time
}

type outcome struct {
	err      error
	entries  map[string]model.BundleEntry
	hasConf  bool
	hasCheck bool
	arrival  []string
}

func (o outcome) canon() string {
	if o.err != nil {
		return "error"
	}
	// Which of several splits that uploaded the same losing content is named under .conflicts/ is not part
	// of the result that is compared (the property does not say): a kept version is identified by
	// (directory, original path, content).
	set := map[string]bool{}
	for p, e := range o.entries {
		if coreh.IsGeneratedRef(p) {
			if parts := strings.SplitN(p, "/", 3); len(parts) == 3 {
				p = parts[0] + "/*/" + parts[2]
			}
		}
		set[fmt.Sprintf("%s=%s/%d", p, e.Hash[:10], e.Size)] = true
	}
	var ks []string
	for k := range set {
		ks = append(ks, k)
	}
	sort.Strings(ks)
	return fmt.Sprintf("conf=%v check=%v %s", o.hasConf, o.hasCheck, strings.Join(ks, " "))
}

func permutations(n int) [][]int {
	var out [][]int
	var rec func(cur []int, used []bool)
	rec = func(cur []int, used []bool) {
		if len(cur) == n {
			out = append(out, append([]int(nil), cur...))
			return
		}
		for i := 0; i < n; i++ {
			if !used[i] {
				used[i] = true
				rec(append(cur, i), used)
				used[i] = false
			}
		}
	}
	rec(nil, make([]bool, n))
	return out
}

var hookMu sync.Mutex
var batchC chan string

func run11(c drv.Case, res *drv.Result) {
	var p params
	drv.Params(c, &p)
	r := rand.New(rand.NewSource(p.Seed))
	hookMu.Lock()
	batchC = make(chan string, 1024)
	hookMu.Unlock()
	verifhook.Set(func(point string, kv ...interface{}) {
		if point == "diamond.merge.batch" {
			hookMu.Lock()
			ch := batchC
			hookMu.Unlock()
			ch <- kv[0].(string)
		}
	})
	defer verifhook.Set(nil)

	base := coreh.NewEnv(memstore.Config{})
	must := func(err error) {
		if err != nil {
			panic(fmt.Sprintf("set-up failed: %v", err))
		}
	}
	must(base.CreateRepo(nil, "r"))
	must(base.CreateRepo(nil, "plain"))
	d, err := base.CreateDiamond(nil, "r", "")
	must(err)
	content := func(label string) []byte { return gen.Bytes(p.Seed, label, 20+len(label)*37) }
	var bigTree coreh.Tree
	early := ""
	earlyDone := make(chan error, 1)
	var releaseEarly func()
	for ui, si := range p.UploadSeq {
		sp := p.Splits[si]
		t := coreh.Tree{}
		for path, label := range sp.Files {
			t[path] = content(label)
		}
		if p.BigSplit && si == 0 {
			bigTree = coreh.GenTree(r, p.Seed, 1001, coreh.TreeOpt{Tiny: true, Prefix: "bulk/"}).Tree()
			for k, v := range bigTree {
				t[k] = v
			}
		}
		if p.Overlap && ui == 0 {
			early = sp.ID
			ea := memstore.NewActor("early-split")
			gate := ea.GateWhen(func(c memstore.Call) bool { return c.Store == "blob" })
			src := base.MemConsumable("src-"+sp.ID, t).For(nil)
			go func() {
				_, err := base.SplitUpload(ea, "r", d.DiamondID, sp.ID, src, 1)
				earlyDone <- err
			}()
			select {
			case <-gate.Parked():
				res.Stat("splits_held_before_their_first_blob_call", 1)
			case err := <-earlyDone:
				must(err) // an empty split makes no blob call: nothing to hold
				early = ""
				continue
			case <-time.After(60 * time.Second):
				res.Skipped = "the first split did not reach its first blob call within 60 s"
				return
			}
			releaseEarly = gate.Release
			continue
		}
		_, err := base.SplitUpload(nil, "r", d.DiamondID, sp.ID, base.MemConsumable("src-"+sp.ID, t).For(nil), 4)
		must(err)
	}
	if releaseEarly != nil {
		time.Sleep(2 * time.Millisecond)
		releaseEarly()
		select {
		case err := <-earlyDone:
			must(err)
		case <-time.After(120 * time.Second):
			res.Skipped = "the held split did not finish within 120 s of its release"
			return
		}
	}
	// ---- read back what datamon stored for each split
	versions := map[string][]version{}
	type idx struct{ split, key string }
	var indexKeys []idx
	batchEntries := map[string][]model.BundleEntry{}
	vm := base.VMeta.Snapshot()
	for _, sp := range p.Splits {
		var sd model.SplitDescriptor
		must(yaml.Unmarshal(vm[model.GetArchivePathToFinalSplit("r", d.DiamondID, sp.ID)], &sd))
		for i := uint64(0); i < sd.SplitEntriesFileCount; i++ {
			key := model.GetArchivePathToSplitFileList("r", d.DiamondID, sp.ID, sd.GenerationID, i)
			var be model.BundleEntries
			must(yaml.Unmarshal(vm[key], &be))
			indexKeys = append(indexKeys, idx{sp.ID, key})
			batchEntries[key] = be.BundleEntries
			for _, e := range be.BundleEntries {
				versions[e.NameWithPath] = append(versions[e.NameWithPath], version{sp.ID, e.Hash, e.Size, e.Timestamp})
			}
		}
	}
	// upload times must agree with what the store saw: the held split made all its blob calls after every other split
	// had finished, so none of its entries may be dated before an entry of another split
	if early != "" {
		for path, vs := range versions {
			for _, ve := range vs {
				if ve.split != early {
					continue
				}
				for _, vo := range vs {
					if vo.split != early && !ve.t.After(vo.t) {
						res.Violate("upload-time-contradicts-store-order", "overlapping-splits", "path %q: split %s started first but uploaded all its files after split %s had finished, yet its entry is dated %s, not after %s (the latest upload would lose); versions: %s",
							path, early, vo.split, ve.t.Format("15:04:05.000000"), vo.t.Format("15:04:05.000000"), fmtVersions(vs))
						return
					}
				}
			}
		}
		res.Stat("overlapping_split_sets_checked", 1)
	}
	conflictExists := false
	winner := map[string]version{}
	for path, vs := range versions {
		w := vs[0]
		for _, v := range vs[1:] {
			if v.t.After(w.t) {
				w = v
			}
			if v.hash != vs[0].hash {
				conflictExists = true
			}
		}
		winner[path] = w
	}

	// ---- arrival orders over index files
	var orders [][]int
	if len(indexKeys) <= 4 {
		orders = permutations(len(indexKeys))
	} else {
		seen := map[string]bool{}
		for len(orders) < p.MaxOrders {
			o := r.Perm(len(indexKeys))
			if k := fmt.Sprint(o); !seen[k] {
				seen[k] = true
				orders = append(orders, o)
			}
		}
	}
	if len(orders) > p.MaxOrders {
		r.Shuffle(len(orders), func(i, j int) { orders[i], orders[j] = orders[j], orders[i] })
		orders = orders[:p.MaxOrders]
	}

	commit := func(mode model.ConflictMode, order []int) (outcome, bool) {
		env := base.Clone()
		a := memstore.NewActor("committer")
		release := map[string]chan struct{}{}
		for _, ik := range indexKeys {
			release[ik.key] = make(chan struct{})
		}
		a.OnCall(func(cl memstore.Call) {
			if cl.Store == "vmeta" && cl.Op == "get" {
				if ch, ok := release[cl.Key]; ok {
					<-ch
				}
			}
		})
		hookMu.Lock()
		batchC = make(chan string, 1024)
		myBatch := batchC
		hookMu.Unlock()
		var dm *core.Diamond
		var cerr error
		done := make(chan struct{})
		go func() {
			var copts []core.Option
			if p.Batch > 0 {
				copts = append(copts, core.BatchSize(p.Batch))
			}
			dm, cerr = env.Commit(a, "r", d.DiamondID, mode, copts...)
			close(done)
		}()
		var arrival []string
		finished := false
		// in forbid mode the merger stops at the first batch that brings a second content for a path: no
		// batch is reported after that one, and the remaining downloads must simply be let go
		stopAfter := -1
		if mode == model.ForbidConflicts {
			seenHash := map[string]string{}
		scan:
			for pos, oi := range order {
				for _, e := range batchEntries[indexKeys[oi].key] {
					if h, ok := seenHash[e.NameWithPath]; ok && h != e.Hash {
						stopAfter = pos
						break scan
					}
					seenHash[e.NameWithPath] = e.Hash
				}
			}
		}
		for pos, oi := range order {
			close(release[indexKeys[oi].key])
			if finished || (stopAfter >= 0 && pos > stopAfter) {
				continue
			}
			select {
			case s := <-myBatch:
				arrival = append(arrival, s)
			case <-done:
				finished = true
			case <-time.After(60 * time.Second):
				return outcome{}, false
			}
		}
		select {
		case <-done:
		case <-time.After(60 * time.Second):
			return outcome{}, false
		}
		o := outcome{err: cerr, arrival: arrival, entries: map[string]model.BundleEntry{}}
		if cerr == nil {
			_, ents, err := env.Entries(nil, "r", dm.BundleID)
			if err != nil {
				o.err = fmt.Errorf("committed bundle unreadable: %w", err)
				return o, true
			}
			for _, e := range ents {
				if _, dup := o.entries[e.NameWithPath]; dup {
					o.err = fmt.Errorf("duplicate entry %q in the committed bundle", e.NameWithPath)
				}
				o.entries[e.NameWithPath] = e
			}
			dd, err := core.GetDiamond("r", d.DiamondID, env.Stores(nil))
			if err == nil {
				o.hasConf, o.hasCheck = dd.HasConflicts, dd.HasCheckpoints
			}
		}
		return o, true
	}

	reference := func(mode model.ConflictMode, o outcome) {
		m := string(mode)
		if mode == model.ForbidConflicts {
			if conflictExists && o.err == nil {
				res.Violate("forbid-mode-accepted-conflict", m, "forbid mode: two splits uploaded different content for a path, yet the commit succeeded (arrival %v)", o.arrival)
			}
			if !conflictExists && o.err != nil {
				res.Violate("forbid-mode-refused-without-conflict", m, "forbid mode: no path has two different contents, yet the commit failed: %v", o.err)
			}
			if o.err != nil {
				return
			}
		} else if o.err != nil {
			res.Violate("commit-failed", m, "commit in mode %s failed: %v (arrival %v)", mode, o.err, o.arrival)
			return
		}
		dirName := map[model.ConflictMode]string{model.EnableConflicts: ".conflicts", model.EnableCheckpoints: ".checkpoints"}[mode]
		losersSeen := map[string]bool{}
		for path, e := range o.entries {
			if !coreh.IsGeneratedRef(path) {
				w, ok := winner[path]
				if !ok {
					res.Violate("main-tree-extra-path", m, "mode %s: committed bundle holds %q which no split uploaded", mode, path)
				} else if e.Hash != w.hash || e.Size != w.size {
					res.Violate("main-tree-not-latest-write", m, "mode %s, arrival %v: path %q is committed with hash %s… but the latest upload (split %s at %s) has %s…; versions: %s",
						mode, o.arrival, path, e.Hash[:10], w.split, w.t.Format("15:04:05.000000"), w.hash[:10], fmtVersions(versions[path]))
				}
				continue
			}
			if dirName == "" {
				res.Violate("conflict-path-in-mode-without-conflicts", m, "mode %s: committed bundle holds %q", mode, path)
				continue
			}
			parts := strings.SplitN(path, "/", 3)
			if len(parts) < 3 || parts[0] != dirName {
				res.Violate("conflict-path-malformed", m, "mode %s: unexpected generated path %q", mode, path)
				continue
			}
			s, orig := parts[1], parts[2]
			uploaded := false
			for _, v := range versions[orig] {
				if v.split == s && v.hash == e.Hash {
					uploaded = true
				}
			}
			if !uploaded {
				res.Violate("conflict-entry-wrong-split", m, "mode %s, arrival %v: %q holds %s…, but split %s did not upload that content for %q; versions: %s", mode, o.arrival, path, e.Hash[:10], s, orig, fmtVersions(versions[orig]))
				continue
			}
			if e.Hash == winner[orig].hash {
				res.Violate("conflict-entry-identical-to-winner", m, "mode %s, arrival %v: %q has the same content as the committed %q: identical contents are no conflict; versions: %s", mode, o.arrival, path, orig, fmtVersions(versions[orig]))
				continue
			}
			losersSeen[orig+"\x00"+e.Hash] = true
		}
		for path, w := range winner {
			if _, ok := o.entries[path]; !ok {
				res.Violate("main-tree-missing-path", m, "mode %s: path %q uploaded by split %s is not in the committed bundle", mode, path, w.split)
			}
			if dirName == "" {
				continue
			}
			for _, v := range versions[path] {
				if v.hash != w.hash && !losersSeen[path+"\x00"+v.hash] {
					res.Violate("losing-version-not-kept", m, "mode %s, arrival %v: content %s… uploaded for %q by split %s lost to %s…, and is kept nowhere under %s/; versions: %s",
						mode, o.arrival, v.hash[:10], path, v.split, w.hash[:10], dirName, fmtVersions(versions[path]))
				}
			}
		}
	}

	modes := []model.ConflictMode{model.IgnoreConflicts, model.EnableConflicts, model.EnableCheckpoints, model.ForbidConflicts}
	mains := map[string]string{}
	for _, mode := range modes {
		byCanon := map[string]outcome{}
		var first outcome
		for oi, order := range orders {
			o, ok := commit(mode, order)
			if !ok {
				res.Skipped = "a commit did not finish within 60 s (gates)"
				return
			}
			res.Stat("commits_run", 1)
			res.Seen("arrival_order", fmt.Sprint(order))
			if oi == 0 {
				first = o
			}
			byCanon[o.canon()] = o
			if len(res.Violations) < 12 {
				reference(mode, o)
			}
		}
		if len(byCanon) > 1 {
			var diff []string
			for _, o := range byCanon {
				diff = append(diff, fmt.Sprintf("arrival %v -> %s", o.arrival, clip(o.canon(), 400)))
				if len(diff) == 2 {
					break
				}
			}
			what := "entries"
			errs, oks := 0, 0
			for _, o := range byCanon {
				if o.err != nil {
					errs++
				} else {
					oks++
				}
			}
			if errs > 0 && oks > 0 {
				what = "success"
			}
			res.Violate("result-depends-on-arrival-order", string(mode)+"|"+what, "mode %s: %d different results over %d arrival orders of the split file lists: %s", mode, len(byCanon), len(orders), strings.Join(diff, " <> "))
		}
		// the main tree must be the same in every mode (when the commit succeeds)
		if first.err == nil {
			var ks []string
			for path, e := range first.entries {
				if !coreh.IsGeneratedRef(path) {
					ks = append(ks, path+"="+e.Hash)
				}
			}
			sort.Strings(ks)
			mains[string(mode)] = strings.Join(ks, " ")
		}
	}
	// ---- store faults: one store call of the commit fails (no gating); a commit that still reports success must have
	// produced the reference merge, a commit that reports the failure is not judged here (C12 covers what it leaves)
	if len(res.Violations) == 0 {
		dryEnv := base.Clone()
		da := memstore.NewActor("dry")
		if _, err := dryEnv.Commit(da, "r", d.DiamondID, model.EnableConflicts); err == nil {
			ncalls, _ := da.Calls()
			pts := []int{}
			for k := 1; k <= ncalls; k++ {
				pts = append(pts, k)
			}
			if len(pts) > 24 {
				r.Shuffle(len(pts), func(i, j int) { pts[i], pts[j] = pts[j], pts[i] })
				pts = pts[:24]
			}
			for _, k := range pts {
				k := k
				mode := []model.ConflictMode{model.IgnoreConflicts, model.EnableConflicts, model.EnableCheckpoints}[k%3]
				env := base.Clone()
				a := memstore.NewActor("committer")
				kind := ""
				a.SetFault(func(c memstore.Call) error {
					if c.Index == k {
						kind = c.Store + "." + c.Op
						return memstore.ErrInjected
					}
					return nil
				})
				dm, cerr := env.Commit(a, "r", d.DiamondID, mode)
				res.Stat("commits_under_a_store_fault", 1)
				res.Seen("faulted_call_kinds", kind)
				if cerr != nil {
					res.Stat("commits_reporting_the_fault", 1)
					continue
				}
				o := outcome{arrival: []string{"faulted:" + kind}, entries: map[string]model.BundleEntry{}}
				_, ents, err := env.Entries(nil, "r", dm.BundleID)
				if err != nil {
					res.Violate("committed-bundle-unreadable-after-fault", string(mode), "commit returned nil under a fault on %s (call %d of %d) but its bundle does not read back: %v", kind, k, ncalls, err)
					break
				}
				for _, e := range ents {
					o.entries[e.NameWithPath] = e
				}
				reference(mode, o)
				if len(res.Violations) > 0 {
					break
				}
			}
		}
	}
	var ref string
	for m, v := range mains {
		if ref == "" {
			ref = v
		} else if v != ref {
			res.Violate("main-tree-differs-between-modes", m, "the main tree committed in mode %s differs from the one of another mode", m)
		}
	}
	// single split == plain upload
	if len(p.Splits) == 1 && !p.BigSplit {
		t := coreh.Tree{}
		for path, label := range p.Splits[0].Files {
			t[path] = content(label)
		}
		id, err := base.Upload(nil, "plain", base.MemConsumable("plain-src", t).For(nil), coreh.UploadOpts{})
		must(err)
		_, pe, err := base.Entries(nil, "plain", id)
		must(err)
		o, _ := commit(model.EnableConflicts, orders[0])
		var a, b []string
		for _, e := range pe {
			a = append(a, fmt.Sprintf("%s=%s/%d", e.NameWithPath, e.Hash, e.Size))
		}
		for _, e := range o.entries {
			b = append(b, fmt.Sprintf("%s=%s/%d", e.NameWithPath, e.Hash, e.Size))
		}
		sort.Strings(a)
		sort.Strings(b)
		if strings.Join(a, " ") != strings.Join(b, " ") {
			res.Violate("single-split-differs-from-plain-upload", "entries", "a single-split diamond commits %v, a plain upload of the same files gives %v", b, a)
		}
		res.Stat("single_split_vs_plain_upload", 1)
	}
	res.Nontrivial = true
	res.Canon = string(c.Params)
	res.Stat("arrival_orders_per_mode", int64(len(orders)))
	if len(indexKeys) <= 4 {
		res.Stat("cases_with_all_permutations", 1)
	}
	res.Seen("splits", fmt.Sprint(len(p.Splits)))
	res.Sample = map[string]interface{}{"splits": p.Splits, "upload_order": p.UploadSeq, "index_files": len(indexKeys), "arrival_orders": len(orders), "paths_with_two_contents": conflictExists}
}

func fmtVersions(vs []version) string {
	sort.Slice(vs, func(i, j int) bool { return vs[i].t.Before(vs[j].t) })
	var out []string
	for _, v := range vs {
		out = append(out, fmt.Sprintf("%s:%s…@%s", v.split, v.hash[:8], v.t.Format("05.000000")))
	}
	return strings.Join(out, " < ")
}

func clip(s string, n int) string {
	if len(s) > n {
		return s[:n] + "…"
	}
	return s
}

func TestC11(t *testing.T) {
	drv.Main(t, drv.Driver{ID: "C11", Gen: gen11, Run: run11, CaseTimeout: 30 * time.Minute})
}
