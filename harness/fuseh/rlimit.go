//go:build verif
// +build verif

package fuseh

import "syscall"

// LimitOpenFiles lowers the soft limit on open descriptors of this process (the Go runtime raises it to the hard
// limit at start-up; 4096 is a common hard limit for services and containers). A mount that leaks a descriptor per
// request then fails within the length of a test case instead of hours later.
func LimitOpenFiles(n uint64) {
	var l syscall.Rlimit
	if err := syscall.Getrlimit(syscall.RLIMIT_NOFILE, &l); err != nil {
		return
	}
	if l.Cur > n {
		l.Cur = n
		_ = syscall.Setrlimit(syscall.RLIMIT_NOFILE, &l)
	}
}
