//go:build verif
// +build verif

// Package fuseh drives a fuseutil.FileSystem the way the kernel would, without a kernel mount: it builds the
// fuseops structures by hand, calls the methods, and decodes the answers (errno, dirent buffers).
package fuseh

import (
	"context"
	"encoding/binary"
	"errors"
	"fmt"
	"syscall"

	"github.com/jacobsa/fuse/fuseops"
	"github.com/jacobsa/fuse/fuseutil"
)

// Errno names the error of an operation: "" for success, the errno name for syscall errors, "other:<text>" otherwise.
func Errno(err error) string {
	if err == nil {
		return ""
	}
	var en syscall.Errno
	if errors.As(err, &en) {
		switch en {
		case syscall.ENOENT:
			return "ENOENT"
		case syscall.EEXIST:
			return "EEXIST"
		case syscall.ENOTEMPTY:
			return "ENOTEMPTY"
		case syscall.ENOSYS:
			return "ENOSYS"
		case syscall.EIO:
			return "EIO"
		case syscall.ENOTDIR:
			return "ENOTDIR"
		case syscall.EINVAL:
			return "EINVAL"
		case syscall.EISDIR:
			return "EISDIR"
		}
		return fmt.Sprintf("errno-%d", int(en))
	}
	return "other:" + err.Error()
}

// Dirent is one decoded directory entry.
type Dirent struct {
	Inode  uint64
	Offset uint64
	Name   string
	IsDir  bool
	Type   uint32
}

// DecodeDirents parses a ReadDir answer (fuse_dirent records, 8-byte aligned).
func DecodeDirents(buf []byte) ([]Dirent, error) {
	var out []Dirent
	for len(buf) > 0 {
		if len(buf) < 24 {
			return out, fmt.Errorf("truncated dirent header (%d bytes left)", len(buf))
		}
		ino := binary.LittleEndian.Uint64(buf[0:8])
		off := binary.LittleEndian.Uint64(buf[8:16])
		nl := int(binary.LittleEndian.Uint32(buf[16:20]))
		tp := binary.LittleEndian.Uint32(buf[20:24])
		pad := 0
		if nl%8 != 0 {
			pad = 8 - nl%8
		}
		if len(buf) < 24+nl+pad {
			return out, fmt.Errorf("truncated dirent name (need %d bytes, %d left)", 24+nl+pad, len(buf))
		}
		out = append(out, Dirent{Inode: ino, Offset: off, Name: string(buf[24 : 24+nl]), IsDir: tp == uint32(fuseutil.DT_Directory), Type: tp})
		buf = buf[24+nl+pad:]
	}
	return out, nil
}

// FS wraps a file system.
type FS struct {
	F fuseutil.FileSystem
}

var bg = context.Background()

// Lookup looks a name up in a directory.
func (f FS) Lookup(parent uint64, name string) (fuseops.ChildInodeEntry, error) {
	op := &fuseops.LookUpInodeOp{Parent: fuseops.InodeID(parent), Name: name}
	err := f.F.LookUpInode(bg, op)
	return op.Entry, err
}

// GetAttr returns the attributes of an inode.
func (f FS) GetAttr(inode uint64) (fuseops.InodeAttributes, error) {
	op := &fuseops.GetInodeAttributesOp{Inode: fuseops.InodeID(inode)}
	err := f.F.GetInodeAttributes(bg, op)
	return op.Attributes, err
}

// ReadDirOnce issues one ReadDir with the given offset and buffer size.
func (f FS) ReadDirOnce(inode, offset uint64, bufSize int) ([]Dirent, error) {
	op := &fuseops.ReadDirOp{Inode: fuseops.InodeID(inode), Offset: fuseops.DirOffset(offset), Dst: make([]byte, bufSize)}
	if err := f.F.ReadDir(bg, op); err != nil {
		return nil, err
	}
	if op.BytesRead < 0 || op.BytesRead > bufSize {
		return nil, fmt.Errorf("ReadDir reports %d bytes for a %d byte buffer", op.BytesRead, bufSize)
	}
	return DecodeDirents(op.Dst[:op.BytesRead])
}

// ReadDirAll lists a directory the way the kernel does: open, read with a fixed buffer, resume from the offset of
// the last entry returned, until an empty answer. maxCalls bounds the loop (a listing that never ends is reported).
func (f FS) ReadDirAll(inode uint64, bufSize, maxCalls int) ([]Dirent, int, error) {
	if err := f.F.OpenDir(bg, &fuseops.OpenDirOp{Inode: fuseops.InodeID(inode)}); err != nil {
		return nil, 0, fmt.Errorf("opendir: %w", err)
	}
	var all []Dirent
	var off uint64
	calls := 0
	for {
		calls++
		if calls > maxCalls {
			return all, calls, fmt.Errorf("listing did not end after %d ReadDir calls", maxCalls)
		}
		ds, err := f.ReadDirOnce(inode, off, bufSize)
		if err != nil {
			return all, calls, err
		}
		if len(ds) == 0 {
			break
		}
		all = append(all, ds...)
		off = ds[len(ds)-1].Offset
	}
	_ = f.F.ReleaseDirHandle(bg, &fuseops.ReleaseDirHandleOp{})
	return all, calls, nil
}

// ReadFile reads size bytes at offset.
func (f FS) ReadFile(inode uint64, offset int64, size int) ([]byte, error) {
	op := &fuseops.ReadFileOp{Inode: fuseops.InodeID(inode), Offset: offset, Size: int64(size), Dst: make([]byte, size)}
	err := f.F.ReadFile(bg, op)
	if op.BytesRead < 0 || op.BytesRead > size {
		return nil, fmt.Errorf("ReadFile reports %d bytes for a %d byte request (err=%v)", op.BytesRead, size, err)
	}
	return op.Dst[:op.BytesRead], err
}
