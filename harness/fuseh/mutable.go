//go:build verif
// +build verif

package fuseh

import (
	"fmt"
	"os"
	"sort"
	"strings"

	"github.com/jacobsa/fuse/fuseops"

	"github.com/oneconcern/datamon/pkg/core"
	dfuse "github.com/oneconcern/datamon/pkg/fuse"
	"github.com/oneconcern/datamon/pkg/model"

	"verifharness/coreh"
	"verifharness/memstore"
)

// Mutable is a mutable mount driven without the kernel.
type Mutable struct {
	FS
	M      *dfuse.MutableFS
	Bundle *core.Bundle
}

// NewMutable creates a mutable mount over a staging directory, the way the CLI does.
func NewMutable(env *coreh.Env, a *memstore.Actor, repo, staging string, leaf uint32) (*Mutable, error) {
	if err := os.MkdirAll(staging, 0o755); err != nil {
		return nil, err
	}
	bd := model.NewBundleDescriptor(model.Message("verif mutable mount"), model.BundleContributor(model.Contributor{Name: "v", Email: "v@example.com"}))
	if leaf != 0 {
		bd.LeafSize = leaf
	}
	b := core.NewBundle(core.BundleDescriptor(bd), core.Repo(repo), core.ContextStores(env.Stores(a)),
		core.ConsumableStore(coreh.LocalFS(staging)), core.Logger(coreh.Nop))
	m, err := dfuse.NewMutableFS(b, dfuse.Logger(coreh.Nop))
	if err != nil {
		return nil, err
	}
	return &Mutable{FS: FS{F: m.VerifFS()}, M: m, Bundle: b}, nil
}

// Create creates a file.
func (m *Mutable) Create(parent uint64, name string) (fuseops.ChildInodeEntry, error) {
	op := &fuseops.CreateFileOp{Parent: fuseops.InodeID(parent), Name: name, Mode: 0o644}
	err := m.F.CreateFile(bg, op)
	return op.Entry, err
}

// MkDir creates a directory.
func (m *Mutable) MkDir(parent uint64, name string) (fuseops.ChildInodeEntry, error) {
	op := &fuseops.MkDirOp{Parent: fuseops.InodeID(parent), Name: name, Mode: 0o755 | os.ModeDir}
	err := m.F.MkDir(bg, op)
	return op.Entry, err
}

// Write writes data at an offset.
func (m *Mutable) Write(inode uint64, off int64, data []byte) error {
	return m.F.WriteFile(bg, &fuseops.WriteFileOp{Inode: fuseops.InodeID(inode), Offset: off, Data: data})
}

// Truncate sets the size of a file.
func (m *Mutable) Truncate(inode uint64, size uint64) error {
	return m.F.SetInodeAttributes(bg, &fuseops.SetInodeAttributesOp{Inode: fuseops.InodeID(inode), Size: &size})
}

// Rename moves an entry.
func (m *Mutable) Rename(op, on string, np uint64, nn string, oldParent uint64) error {
	return m.F.Rename(bg, &fuseops.RenameOp{OldParent: fuseops.InodeID(oldParent), OldName: on, NewParent: fuseops.InodeID(np), NewName: nn})
}

// Unlink removes a file name.
func (m *Mutable) Unlink(parent uint64, name string) error {
	return m.F.Unlink(bg, &fuseops.UnlinkOp{Parent: fuseops.InodeID(parent), Name: name})
}

// RmDir removes a directory.
func (m *Mutable) RmDir(parent uint64, name string) error {
	return m.F.RmDir(bg, &fuseops.RmDirOp{Parent: fuseops.InodeID(parent), Name: name})
}

// Forget tells the file system the kernel dropped n references to an inode.
func (m *Mutable) Forget(inode uint64, n uint64) error {
	return m.F.ForgetInode(bg, &fuseops.ForgetInodeOp{Inode: fuseops.InodeID(inode), N: n})
}

// Flush flushes a file (close(2)).
func (m *Mutable) Flush(inode uint64) error {
	return m.F.FlushFile(bg, &fuseops.FlushFileOp{Inode: fuseops.InodeID(inode)})
}

// Commit uploads the visible tree as a bundle and returns its ID.
func (m *Mutable) Commit() (string, error) {
	err := m.M.Commit()
	return m.Bundle.BundleID, err
}

// CommitTree writes a tree into a fresh mutable mount and commits it.
func CommitTree(env *coreh.Env, staging, repo string, tree coreh.Tree, leaf uint32) (string, error) {
	return CommitTreeAs(env, nil, staging, repo, tree, leaf)
}

// CommitTreeAs is CommitTree with the mount's store calls made by actor a (crashes, faults, gates).
func CommitTreeAs(env *coreh.Env, a *memstore.Actor, staging, repo string, tree coreh.Tree, leaf uint32) (string, error) {
	m, err := NewMutable(env, a, repo, staging, leaf)
	if err != nil {
		return "", err
	}
	dirs := map[string]uint64{"": 1}
	paths := tree.Paths()
	sort.Strings(paths)
	for _, p := range paths {
		comps := strings.Split(p, "/")
		cur := ""
		for _, c := range comps[:len(comps)-1] {
			nx := strings.TrimPrefix(cur+"/"+c, "/")
			if _, ok := dirs[nx]; !ok {
				e, err := m.MkDir(dirs[cur], c)
				if err != nil {
					return "", fmt.Errorf("mkdir %q: %w", nx, err)
				}
				dirs[nx] = uint64(e.Child)
			}
			cur = nx
		}
		e, err := m.Create(dirs[cur], comps[len(comps)-1])
		if err != nil {
			return "", fmt.Errorf("create %q: %w", p, err)
		}
		data := tree[p]
		for off := 0; off < len(data); off += 4096 {
			end := off + 4096
			if end > len(data) {
				end = len(data)
			}
			if err := m.Write(uint64(e.Child), int64(off), data[off:end]); err != nil {
				return "", fmt.Errorf("write %q: %w", p, err)
			}
		}
	}
	return m.Commit()
}
