package c06

import (
	"bytes"
	"context"
	"fmt"
	"math/rand"
	"os"
	"sort"
	"strings"
	"testing"
	"time"

	"github.com/oneconcern/datamon/pkg/core"
	"github.com/oneconcern/datamon/pkg/model"

	"verifharness/cafsh"
	"verifharness/coreh"
	"verifharness/drv"
	"verifharness/fuseh"
	"verifharness/gen"
	"verifharness/memstore"
)

// C06 — bundles become visible atomically and are never altered afterwards.
//
// Committed = bundles whose bundle.yaml landed (read from the store, not from datamon). After a crash of
// the operation at any store write (before or after it lands), a fresh client must see: ListBundles ==
// Committed; GetLatestBundle == max(Committed); labels list and resolve; every committed bundle
// downloads with its recorded tree (the in-flight bundle is either absent or complete). The retried
// operation succeeds. Write-once monitor: no Put/Delete ever lands under bundles/<repo>/<id>/ of a bundle
// committed before the operation started; byte snapshots of committed metadata are compared.

type params struct {
	Prior   []coreh.TreeSpec `json:"prior"`
	Labels  []string         `json:"labels"`
	Op      string           `json:"op"` // upload | upload-keys | commit | label-new | label-overwrite
	Tree    coreh.TreeSpec   `json:"tree"`
	Tree2   coreh.TreeSpec   `json:"tree2"`
	Leaf    uint32           `json:"leaf"`
	Sampled bool             `json:"sampled_blob_crash_points"`
	Seed    int64            `json:"seed"`
}

func gen06(seed int64, tier string) []drv.Case {
	r := gen.Rand(seed, "c06")
	var cs []drv.Case
	n := 16
	if tier == "thorough" {
		n = 240
	}
	ops := []string{"upload", "upload", "upload-keys", "commit", "label-new", "label-overwrite", "upload", "mount-commit"}
	for i := 0; i < n; i++ {
		op := ops[i%len(ops)]
		leaf := uint32([]int{4096, 2 << 20}[r.Intn(2)])
		p := params{Op: op, Leaf: leaf, Seed: r.Int63()}
		for j := 0; j < 1+r.Intn(3); j++ {
			p.Prior = append(p.Prior, coreh.GenTree(r, r.Int63(), r.Intn(4), coreh.TreeOpt{Leaf: 64, DupRatio: 3, Prefix: fmt.Sprintf("p%d/", j)}))
		}
		for j := 0; j < r.Intn(3); j++ {
			p.Labels = append(p.Labels, fmt.Sprintf("label%d", j))
		}
		nf := 1 + r.Intn(4)
		// (no 1000-file tree for mount-commit: a mount keeps one descriptor per created file and the commit opens every
		// file at once, so such a case measures the descriptor limit, and every enumerated crash leaves those
		// descriptors open in the goroutines of the "dead" client)
		big := (op == "upload" && ((tier == "thorough" && i%20 == 0) || (tier != "thorough" && i == 0)))
		if big {
			nf, p.Sampled = 1001+r.Intn(150), true
			p.Tree = coreh.GenTree(r, r.Int63(), nf, coreh.TreeOpt{Tiny: true})
		} else {
			p.Tree = coreh.GenTree(r, r.Int63(), nf, coreh.TreeOpt{Leaf: 4096, DupRatio: 4, Prefix: "s1/"})
		}
		p.Tree2 = coreh.GenTree(r, r.Int63(), 1+r.Intn(3), coreh.TreeOpt{Leaf: 4096, Prefix: "s2/"})
		cls := op
		if big {
			cls = "upload-two-index-files"
		}
		cs = append(cs, drv.Case{ID: fmt.Sprintf("%s-%d", cls, i), Class: cls, Params: drv.MustJSON(p)})
	}
	return cs
}

type world struct {
	env       *coreh.Env
	trees     map[string]coreh.Tree // committed bundle -> recorded tree
	labels    map[string]string
	diamond   string
	opTree    coreh.Tree
	src, src2 string
}

func committed(env *coreh.Env) []string {
	var ids []string
	for _, k := range env.Meta.RawKeys() {
		if strings.HasPrefix(k, "bundles/r/") && strings.HasSuffix(k, "/bundle.yaml") {
			ids = append(ids, strings.Split(k, "/")[2])
		}
	}
	sort.Strings(ids)
	return ids
}

func runOp(p params, w *world, env *coreh.Env, a *memstore.Actor) (string, error) {
	switch p.Op {
	case "upload":
		return env.Upload(a, "r", env.W.Store(w.src).For(nil), coreh.UploadOpts{Leaf: p.Leaf, Concurrency: 1})
	case "upload-keys":
		keys := w.opTree.Paths()
		return env.Upload(a, "r", env.W.Store(w.src).For(nil), coreh.UploadOpts{Leaf: p.Leaf, Concurrency: 1, Keys: keys})
	case "commit":
		d, err := env.Commit(a, "r", w.diamond, model.IgnoreConflicts)
		if d != nil {
			return d.BundleID, err
		}
		return "", err
	case "mount-commit":
		// the commit of a mutable mount: files staged locally, then blobs, file lists and descriptor (UploadBundleEntries)
		stag, err := os.MkdirTemp(os.Getenv("VERIF_SCRATCH"), "c06-mntop-")
		if err != nil {
			panic(err)
		}
		defer os.RemoveAll(stag)
		return fuseh.CommitTreeAs(env, a, stag, "r", w.opTree, p.Leaf)
	case "label-new":
		ids := committed(env)
		return "", env.SetLabel(a, "r", "fresh-label", ids[len(ids)-1])
	case "label-overwrite":
		ids := committed(env)
		return "", env.SetLabel(a, "r", "label0", ids[0])
	}
	panic("unknown op")
}

func run06(c drv.Case, res *drv.Result) {
	var p params
	drv.Params(c, &p)
	cafsh.InstallWriteProgressMonitor()
	r := rand.New(rand.NewSource(p.Seed))
	base := coreh.NewEnv(memstore.Config{})
	w := &world{env: base, trees: map[string]coreh.Tree{}, labels: map[string]string{}}
	must := func(err error) {
		if err != nil {
			panic(fmt.Sprintf("set-up failed: %v", err))
		}
	}
	must(base.CreateRepo(nil, "r"))
	for i, ts := range p.Prior {
		t := ts.Tree()
		id, err := base.Upload(nil, "r", base.MemConsumable(fmt.Sprintf("prior%d", i), t).For(nil), coreh.UploadOpts{Leaf: 64, Concurrency: 2})
		must(err)
		w.trees[id] = t
	}
	prior := committed(base)
	if p.Op == "label-overwrite" && len(p.Labels) == 0 {
		p.Labels = []string{"label0"}
	}
	for i, l := range p.Labels {
		id := prior[(i+1)%len(prior)]
		must(base.SetLabel(nil, "r", l, id))
		w.labels[l] = id
	}
	w.src, w.src2 = "op-src", "op-src2"
	w.opTree = p.Tree.Tree()
	const lastFile = "zzzz/last-file-with-unique-content"
	if p.Sampled {
		// the last file in upload order has a content of its own (its blob write is the target of a fault below)
		w.opTree[lastFile] = gen.Bytes(p.Seed, "last-unique", 100)
	}
	base.MemConsumable(w.src, w.opTree)
	if p.Op == "commit" {
		d, err := base.CreateDiamond(nil, "r", "")
		must(err)
		w.diamond = d.DiamondID
		t2 := p.Tree2.Tree()
		base.MemConsumable(w.src2, t2)
		_, err = base.SplitUpload(nil, "r", w.diamond, "split-1", base.W.Store(w.src).For(nil), 2)
		must(err)
		_, err = base.SplitUpload(nil, "r", w.diamond, "split-2", base.W.Store(w.src2).For(nil), 2)
		must(err)
		for k, v := range t2 {
			w.opTree[k] = v
		}
	}
	baseMeta := base.Meta.Snapshot()

	// ---- a second upload presenting the ID of an already committed bundle (a retried commit of a mutable mount, a
	// client that preserved its bundle ID): whatever it reports, the committed descriptor and file lists stay as they are
	if len(prior) > 0 {
		re := base.Clone()
		victimID := prior[len(prior)-1]
		t2 := p.Tree2.Tree()
		re.MemConsumable("re-src", t2)
		_, rerr := re.Upload(memstore.NewActor("second-writer"), "r", re.W.Store("re-src").For(nil), coreh.UploadOpts{Leaf: p.Leaf, Concurrency: 2, BundleID: victimID})
		res.Stat("second_uploads_under_a_committed_id", 1)
		if rerr != nil {
			res.Stat("second_uploads_under_a_committed_id_refused", 1)
		}
		for k, v := range baseMeta {
			if !strings.HasPrefix(k, "bundles/r/"+victimID+"/") {
				continue
			}
			if nv, ok := re.Meta.RawGet(k); !ok || !bytes.Equal(nv, v) {
				what := "file-list"
				if strings.HasSuffix(k, "/bundle.yaml") {
					what = "descriptor"
				}
				res.Violate("committed-metadata-altered", "second-upload-under-the-same-id|"+what, "a second upload presenting the ID of the committed bundle %s (result: %v) changed %s (%d -> %d bytes)", victimID, rerr, k, len(v), len(nv))
				return
			}
		}
	}
	// ---- a mutable mount committed twice (Commit, then Unmount commits again): the bundle that became visible with the
	// first commit keeps its descriptor and file lists, whatever the second commit reports
	if p.Op == "upload" && !p.Sampled {
		me := base.Clone()
		stag, err := os.MkdirTemp(os.Getenv("VERIF_SCRATCH"), "c06-mnt-")
		must(err)
		mm, err := fuseh.NewMutable(me, memstore.NewActor("mount"), "r", stag, p.Leaf)
		must(err)
		mk := func(name string, n int) {
			e, err := mm.Create(1, name)
			must(err)
			must(mm.Write(uint64(e.Child), 0, gen.Bytes(p.Seed, "mnt-"+name, n)))
		}
		mk("a", 100)
		id1, err := mm.Commit()
		must(err)
		snap1 := map[string][]byte{}
		for k, v := range me.Meta.Snapshot() {
			if strings.HasPrefix(k, "bundles/r/"+id1+"/") {
				snap1[k] = v
			}
		}
		mk("b", 200)
		id2, err2 := mm.Commit()
		os.RemoveAll(stag)
		res.Stat("mounts_committed_twice", 1)
		if err2 != nil {
			res.Stat("second_commits_refused", 1)
		}
		for k, v := range snap1 {
			if nv, ok := me.Meta.RawGet(k); !ok || !bytes.Equal(nv, v) {
				what := "file-list"
				if strings.HasSuffix(k, "/bundle.yaml") {
					what = "descriptor"
				}
				res.Violate("committed-metadata-altered", "mount-committed-twice|"+what, "the second commit of a mutable mount (bundle %s, then %s, result %v) changed %s of the bundle made visible by the first commit (%d -> %d bytes)", id1, id2, err2, k, len(v), len(nv))
				return
			}
		}
	}
	// ---- dry run: the operation's writes
	dry := base.Clone()
	da := memstore.NewActor("dry")
	seq0 := dry.W.Seq()
	if _, err := runOp(p, w, dry, da); err != nil {
		res.Violate("operation-failed", p.Op, "the uncrashed operation failed: %v", err)
		return
	}
	type wr struct{ store, op, key string }
	var writes []wr
	for _, e := range dry.W.Log(seq0) {
		if e.Actor == "dry" && (e.Op == "put" || e.Op == "putx" || e.Op == "delete" || e.Op == "touch") {
			writes = append(writes, wr{e.Store, e.Op, e.Key})
		}
	}
	W := len(writes)
	var points []int
	for k := 1; k <= W; k++ {
		if !p.Sampled || writes[k-1].store != "blob" || r.Intn(W/12+1) == 0 {
			points = append(points, k)
		}
	}
	res.Stat("store_writes_of_operation", int64(W))

	keyClass := func(k string) string {
		switch {
		case strings.HasSuffix(k, "/bundle.yaml"):
			return "bundle-descriptor"
		case strings.Contains(k, "/bundle-files-"):
			return "file-list"
		case strings.HasSuffix(k, "/label.yaml"):
			return "label"
		case strings.Contains(k, "diamond-done"):
			return "diamond-done"
		case strings.HasPrefix(k, "bundles/") || strings.HasPrefix(k, "labels/") || strings.HasPrefix(k, "diamonds/"):
			return "other-metadata"
		}
		return "blob"
	}

	observe := func(env *coreh.Env, stage, where string) bool {
		obs := memstore.NewActor("observer")
		st := env.Stores(obs)
		comm := committed(env)
		bs, err := core.ListBundles("r", st)
		if err != nil {
			res.Violate("list-bundles-failed", stage+"|"+where, "%s, crash %s: ListBundles: %v", stage, where, err)
			return false
		}
		var got []string
		for _, b := range bs {
			got = append(got, b.ID)
		}
		sort.Strings(got)
		// the same listing with a single worker (leftovers of interrupted uploads sit between committed bundles): it must
		// return, and return the same bundles. A listing that makes no store call for 60 s and has not returned is stalled.
		{
			one := memstore.NewActor("observer-1")
			type lr struct {
				ids []string
				err error
			}
			ch := make(chan lr, 1)
			go func() {
				xs, err := core.ListBundles("r", env.Stores(one), core.ConcurrentList(1), core.BatchSize(3))
				var ids []string
				for _, b := range xs {
					ids = append(ids, b.ID)
				}
				sort.Strings(ids)
				ch <- lr{ids, err}
			}()
			last, idle := -1, 0
			var r1 lr
			returned := false
			for !returned {
				select {
				case r1 = <-ch:
					returned = true
				case <-time.After(time.Second):
					n, _ := one.Calls()
					if n == last {
						idle++
					} else {
						last, idle = n, 0
					}
				}
				if idle >= 60 {
					res.Violate("listing-stalled", stage+"|"+where, "%s, crash %s: ListBundles with one worker has not returned and made no store call for 60 s (after %d calls); committed bundles %v", stage, where, last, comm)
					return false
				}
			}
			if r1.err != nil || strings.Join(r1.ids, ",") != strings.Join(comm, ",") {
				res.Violate("visible-set-differs-from-committed", "single-worker|"+stage+"|"+where, "%s, crash %s: ListBundles(ConcurrentList(1), BatchSize(3)) = %v (err %v), bundles whose descriptor landed = %v", stage, where, r1.ids, r1.err, comm)
				return false
			}
		}
		if strings.Join(got, ",") != strings.Join(comm, ",") {
			res.Violate("visible-set-differs-from-committed", stage+"|"+where, "%s, crash %s: ListBundles = %v, bundles whose descriptor landed = %v", stage, where, got, comm)
			return false
		}
		latest, err := core.GetLatestBundle("r", st)
		if err != nil || latest != comm[len(comm)-1] {
			cls := "not-committed"
			for _, id := range comm {
				if id == latest {
					cls = "not-the-latest"
				}
			}
			res.Violate("latest-bundle-wrong", cls+"|"+stage+"|"+where, "%s, crash %s: GetLatestBundle = %q (err %v); the most recent committed bundle is %s (committed: %v)", stage, where, latest, err, comm[len(comm)-1], comm)
			return false
		}
		ls, err := core.ListLabels("r", st)
		if err != nil {
			res.Violate("list-labels-failed", stage+"|"+where, "%s, crash %s: ListLabels: %v", stage, where, err)
			return false
		}
		for _, l := range ls {
			id, err := env.GetLabel(obs, "r", l.Name)
			if err != nil || id != l.BundleID {
				res.Violate("label-unresolvable", stage+"|"+where, "%s, crash %s: label %q lists as %s but resolves to %q (%v)", stage, where, l.Name, l.BundleID, id, err)
				return false
			}
			if want, ok := w.labels[l.Name]; ok && p.Op != "label-overwrite" && id != want {
				res.Violate("label-changed", stage+"|"+where, "%s, crash %s: label %q moved from %s to %s", stage, where, l.Name, want, id)
				return false
			}
		}
		for name, want := range w.labels {
			found := false
			for _, l := range ls {
				if l.Name == name {
					found = true
				}
			}
			if !found {
				res.Violate("label-lost", stage+"|"+where, "%s, crash %s: label %q (-> %s) is no longer listed", stage, where, name, want)
				return false
			}
		}
		for i, id := range comm {
			want, known := w.trees[id]
			if !known {
				want = w.opTree // a bundle produced by the operation under test
			}
			if p.Sampled && known && i%2 == 1 {
				continue
			}
			dest := env.W.Store(fmt.Sprintf("dest-%s-%s-%d", stage, id, r.Int63()))
			if err := env.Publish(obs, "r", id, dest.For(obs), 4); err != nil {
				cls := "prior-bundle"
				if !known {
					cls = "in-flight-bundle"
				}
				res.Violate("committed-bundle-not-downloadable", cls+"|"+stage+"|"+where, "%s, crash %s: visible bundle %s does not download: %v", stage, where, id, err)
				return false
			}
			gotTree := coreh.WithoutMeta(coreh.StoreTree(dest))
			if p.Op == "mount-commit" && !known {
				// a mutable mount records its entries with a leading "/" (a directory destination drops it, the
				// reference store keeps it): compared without it, as C18 does
				nt := coreh.Tree{}
				for k, v := range gotTree {
					nt[strings.TrimPrefix(k, "/")] = v
				}
				gotTree = nt
			}
			if d := coreh.DiffTrees(gotTree, want); d != "" {
				res.Violate("committed-bundle-content", stage+"|"+where, "%s, crash %s: visible bundle %s differs from its recorded tree: %s", stage, where, id, d)
				return false
			}
			res.Stat("bundle_downloads_checked", 1)
		}
		// committed metadata is write-once
		for k, v := range baseMeta {
			if !strings.HasPrefix(k, "bundles/r/") {
				continue
			}
			id := strings.Split(k, "/")[2]
			if _, wasCommitted := w.trees[id]; !wasCommitted {
				continue
			}
			nv, ok := env.Meta.RawGet(k)
			if !ok || !bytes.Equal(nv, v) {
				res.Violate("committed-metadata-altered", stage+"|"+where, "%s, crash %s: metadata object %s of a committed bundle was changed or removed", stage, where, k)
				return false
			}
		}
		for _, e := range env.W.Log(seq0) {
			if e.Landed && e.Store == "meta" && strings.HasPrefix(e.Key, "bundles/r/") && len(strings.Split(e.Key, "/")) > 3 {
				if _, wasCommitted := w.trees[strings.Split(e.Key, "/")[2]]; wasCommitted {
					res.Violate("write-to-committed-bundle", e.Op+"|"+stage, "%s, crash %s: %s by %s landed on %s, which belongs to an already committed bundle", stage, where, e.Op, e.Actor, e.Key)
					return false
				}
			}
		}
		return true
	}

	for _, k := range points {
		for _, after := range []bool{false, true} {
			wk := writes[k-1]
			where := fmt.Sprintf("%s-%s", map[bool]string{false: "before", true: "after"}[after], keyClass(wk.key))
			env := base.Clone()
			a := memstore.NewActor("victim").CrashAt(k, after)
			done := make(chan error, 1)
			go func() { _, err := runOp(p, w, env, a); done <- err }()
			select {
			case <-a.Dead():
			case err := <-done:
				if err == nil {
					// the schedule of writes differed from the dry run and the crash point was not reached: judge as a clean run
					res.Stat("crash_points_not_reached", 1)
				}
			case <-time.After(90 * time.Second):
				res.Skipped = "operation neither returned nor crashed within 90 s"
				return
			}
			time.Sleep(2 * time.Millisecond) // let goroutines of the dead actor park inside the store
			res.Stat("crash_points_enumerated", 1)
			res.Seen("crash_point_class", where)
			if !observe(env, "after-crash", where) {
				return
			}
			// ---- retry by a fresh client
			diamondDone := false
			if p.Op == "commit" {
				_, diamondDone = env.VMeta.RawGet(model.GetArchivePathToFinalDiamond("r", w.diamond))
			}
			_, err := runOp(p, w, env, memstore.NewActor("retry"))
			if err != nil && !(p.Op == "commit" && diamondDone) {
				res.Violate("retry-failed", p.Op+"|"+where, "crash %s of %s (write %d/%d on %s): the retried operation failed: %v", where, p.Op, k, W, wk.key, err)
				return
			}
			if !observe(env, "after-retry", where) {
				return
			}
		}
	}
	// ---- store faults instead of crashes (uploads): one store call of the operation fails, the client carries on along
	// its error path. Whatever it returns, a fresh client must only see complete bundles; when it returns nil its
	// bundle must be visible.
	faultEvals := 0
	if p.Op == "upload" || p.Op == "upload-keys" || (p.Op == "mount-commit" && !p.Sampled) {
		runFaulted := func(label string, prepare func(a *memstore.Actor) func()) bool {
			env := base.Clone()
			a := memstore.NewActor("faulted")
			finish := prepare(a)
			before := committed(env)
			done := make(chan error, 1)
			var id string
			go func() { i, err := runOp(p, w, env, a); id = i; done <- err }()
			if finish != nil {
				finish()
			}
			var err error
			select {
			case err = <-done:
			case <-time.After(90 * time.Second):
				res.Skipped = "faulted operation did not return within 90 s"
				return false
			}
			faultEvals++
			res.Stat("fault_points_enumerated", 1)
			if a.FaultsInjected() == 0 {
				res.Stat("fault_points_not_reached", 1)
			}
			after := committed(env)
			if err == nil && a.FaultsInjected() > 0 {
				res.Stat("operations_succeeding_despite_fault", 1)
			}
			if err == nil && (len(after) != len(before)+1 || !contains(after, id)) {
				res.Violate("successful-upload-not-visible", label, "fault %s: %s returned nil but its bundle %s is not among the committed bundles %v", label, p.Op, id, after)
				return false
			}
			if err != nil && len(after) != len(before) {
				res.Stat("failed_uploads_leaving_a_visible_bundle", 1) // allowed only if complete: checked by the observer
			}
			return observe(env, "after-fault", label)
		}
		if !p.Sampled {
			da2 := memstore.NewActor("dry2")
			dry2 := base.Clone()
			if _, err := runOp(p, w, dry2, da2); err == nil {
				ncalls, _ := da2.Calls()
				for i := 1; i <= ncalls; i++ {
					i := i
					ok := runFaulted(fmt.Sprintf("call-%d-fails", i), func(a *memstore.Actor) func() {
						a.SetFault(func(c memstore.Call) error {
							if c.Index == i {
								res.Seen("faulted_call_kinds", c.Store+"."+c.Op)
								return memstore.ErrInjected
							}
							return nil
						})
						return nil
					})
					if !ok {
						return
					}
				}
			}
		} else {
			// the blob write of the last file fails while the client is busy writing the first file list (held inside that
			// store call until the fault has been delivered)
			var lastKey string
			for _, e := range dry.W.Log(seq0) {
				if e.Actor == "dry" && e.Store == "blob" && e.Landed && e.Size == 100 {
					lastKey = e.Key
				}
			}
			// a tree of exactly 1000 files plus the last one: the first file list is written when only the last file is
			// outstanding
			exact := coreh.Tree{}
			for i, pth := range w.opTree.Paths() {
				if i < 1000 && pth != lastFile {
					exact[pth] = w.opTree[pth]
				}
			}
			exact[lastFile] = w.opTree[lastFile]
			base.MemConsumable("op-src-exact", exact)
			fullTree, fullSrc := w.opTree, w.src
			w.opTree, w.src = exact, "op-src-exact"
			defer func() { w.opTree, w.src = fullTree, fullSrc }()
			for rep := 0; rep < 8 && lastKey != ""; rep++ {
				ok := runFaulted("last-blob-write-fails-while-first-file-list-is-written", func(a *memstore.Actor) func() {
					a.SetFault(func(c memstore.Call) error {
						if c.Store == "blob" && c.Key == lastKey && (c.Op == "put" || c.Op == "putx") {
							return memstore.ErrInjected
						}
						return nil
					})
					g := a.GateWhen(func(c memstore.Call) bool {
						return c.Store == "meta" && strings.Contains(c.Key, "/bundle-files-0") && (c.Op == "put" || c.Op == "putx")
					})
					return func() {
						select {
						case <-g.Parked():
							res.Stat("file_list_writes_held", 1)
							for t := 0; t < 2500 && a.FaultsInjected() == 0; t++ {
								time.Sleep(2 * time.Millisecond)
							}
							time.Sleep(20 * time.Millisecond)
						case <-time.After(60 * time.Second):
						}
						g.Release()
					}
				})
				if !ok {
					return
				}
			}
		}
	}
	res.Nontrivial = len(points) > 0
	res.Canon = string(c.Params)
	res.Evals = int64(2*len(points)+faultEvals) - 1
	res.Distinct = int64(2*len(points)+faultEvals) - 1
	var sw []string
	for i, x := range writes {
		if i < 6 || i >= len(writes)-3 {
			sw = append(sw, x.store+":"+x.op+":"+clipKey(x.key))
		}
	}
	res.Sample = map[string]interface{}{"op": p.Op, "prior_bundles": len(prior), "labels": p.Labels, "op_files": len(w.opTree), "store_writes": W, "crash_points": 2 * len(points), "writes": sw}
	_ = context.Background
}

func contains(xs []string, x string) bool {
	for _, y := range xs {
		if y == x {
			return true
		}
	}
	return false
}

func clipKey(k string) string {
	if len(k) > 60 {
		return k[:24] + "…" + k[len(k)-28:]
	}
	return k
}

func TestC06(t *testing.T) {
	drv.Main(t, drv.Driver{ID: "C06", Gen: gen06, Run: run06, CaseTimeout: 30 * time.Minute})
}
