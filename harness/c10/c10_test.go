package c10

import (
	"fmt"
	"math/rand"
	"sort"
	"strings"
	"testing"
	"time"

	"github.com/oneconcern/datamon/cmd/datamon/cmd"
	"github.com/oneconcern/datamon/pkg/core"
	"github.com/oneconcern/datamon/pkg/model"

	"verifharness/cafsh"
	"verifharness/coreh"
	"verifharness/drv"
	"verifharness/gen"
	"verifharness/memstore"
)

// C10 — squash keeps exactly the requested bundles, intact.
//
// Committed = bundles whose descriptor landed (from the store). Expected survivors = the N greatest IDs
// of Committed, plus (retain-tags) bundles carrying any label, plus (retain-semver-tags) bundles carrying
// a semver label. After RepoSquash: ListBundles == survivors; labels == labels pointing at survivors;
// every survivor's entries unchanged and downloadable; max(Committed) always survives.

type event struct {
	Kind   string   `json:"kind"` // upload | crashed-upload
	Files  int      `json:"files"`
	CrashK int      `json:"crash_at_write,omitempty"`
	After  bool     `json:"crash_after,omitempty"`
	Labels []string `json:"labels,omitempty"`
}

type params struct {
	Events  []event `json:"events"`
	RetainN int     `json:"retain_n"`
	Tags    string  `json:"tags"` // none | all | semver
	DelNil  bool    `json:"delete_missing_nil"`
	Seed    int64   `json:"seed"`
	// Fault in (0,1]: one store call of the squash (at that fraction of its calls, counted by a dry run on a clone) fails
	Fault float64 `json:"fault_at_fraction,omitempty"`
	// Batch > 0: squash lists with core.BatchSize(Batch) (the CLI's --batch-size); pages of 1..4 keys put leftovers
	// of interrupted uploads alone on a page in the middle of the history
	Batch int `json:"batch_size,omitempty"`
	// ViaContext: the squash goes through the per-repo callback of "datamon context squash" (flag values -> options),
	// not through a direct call of core.RepoSquash
	ViaContext bool `json:"via_context_squash_command,omitempty"`
}

var semverLabels = []string{"1.2.3", "v1.2.3", "2.0.0", "v0.1.0", "10.20.30"}
var plainLabels = []string{"prod", "latest", "rc-1", "stable", "nightly"}

func gen10(seed int64, tier string) []drv.Case {
	r := gen.Rand(seed, "c10")
	n := 80
	if tier == "thorough" {
		n = 2500
	}
	var cs []drv.Case
	for i := 0; i < n; i++ {
		nb := []int{0, 1, 2, 3, 5, 8, 12, 20, 40}[r.Intn(9)]
		if tier != "thorough" && nb > 12 {
			nb = 12
		}
		nLeft := []int{0, 0, 1, 1, 2, 3}[r.Intn(6)]
		var evs []event
		for j := 0; j < nb; j++ {
			e := event{Kind: "upload", Files: r.Intn(4)}
			for k := 0; k < r.Intn(3); k++ {
				if r.Intn(2) == 0 {
					e.Labels = append(e.Labels, semverLabels[r.Intn(len(semverLabels))])
				} else {
					e.Labels = append(e.Labels, plainLabels[r.Intn(len(plainLabels))])
				}
			}
			evs = append(evs, e)
		}
		for j := 0; j < nLeft; j++ {
			e := event{Kind: "crashed-upload", Files: 1 + r.Intn(3), CrashK: 1 + r.Intn(12), After: r.Intn(2) == 0}
			if r.Intn(2) == 0 {
				// died just before its descriptor: file list(s) under the bundle's prefix, no bundle.yaml
				e.Kind = "descriptor-less-upload"
			}
			// newest, oldest or middle position
			pos := []int{len(evs), 0, len(evs) / 2}[r.Intn(3)]
			evs = append(evs[:pos], append([]event{e}, evs[pos:]...)...)
		}
		cls := fmt.Sprintf("leftovers=%d", nLeft)
		if i%8 == 7 && nb > 0 {
			// the newest upload died while writing its descriptor on a store without atomic writes: empty bundle.yaml
			evs = append(evs, event{Kind: "torn-descriptor-upload", Files: 1 + r.Intn(3)})
			cls = "empty-descriptor-leftover"
		}
		p := params{Events: evs, RetainN: 1 + r.Intn(5), Tags: []string{"none", "all", "semver"}[r.Intn(3)], DelNil: r.Intn(2) == 0, Seed: r.Int63()}
		if i%4 == 2 && nb > 1 {
			p.Fault, p.Tags = r.Float64(), []string{"all", "semver"}[r.Intn(2)]
			cls = "squash-under-a-store-fault"
		}
		if r.Intn(3) == 0 {
			p.Batch = []int{1, 1, 1, 2, 3, 4}[r.Intn(6)]
			cls += "|small-pages"
		}
		if p.Fault == 0 && i%5 == 1 {
			p.ViaContext = true
			cls += "|context-squash-command"
		}
		cs = append(cs, drv.Case{ID: fmt.Sprintf("%s-%d", cls, i), Class: cls, Params: drv.MustJSON(p)})
	}
	return cs
}

func committed(env *coreh.Env) []string {
	var ids []string
	for _, k := range env.Meta.RawKeys() {
		if strings.HasPrefix(k, "bundles/r/") && strings.HasSuffix(k, "/bundle.yaml") {
			if raw, _ := env.Meta.RawGet(k); len(raw) == 0 {
				continue // an empty descriptor is the leftover of an interrupted upload, not a committed bundle
			}
			ids = append(ids, strings.Split(k, "/")[2])
		}
	}
	sort.Strings(ids)
	return ids
}

func run10(c drv.Case, res *drv.Result) {
	var p params
	drv.Params(c, &p)
	cafsh.InstallWriteProgressMonitor()
	r := rand.New(rand.NewSource(p.Seed))
	env := coreh.NewEnv(memstore.Config{DeleteMissingNil: p.DelNil})
	must := func(err error) {
		if err != nil {
			panic(fmt.Sprintf("set-up failed: %v", err))
		}
	}
	must(env.CreateRepo(nil, "r"))
	must(env.CreateRepo(nil, "r2")) // a neighbour that must not be touched
	_, err := env.Upload(nil, "r2", env.MemConsumable("n", coreh.Tree{"x": []byte("x")}).For(nil), coreh.UploadOpts{Leaf: 4096})
	must(err)
	must(env.SetLabel(nil, "r2", "prod", committedOf(env, "r2")[0]))

	trees := map[string]coreh.Tree{}
	labels := map[string]string{} // label -> bundle (last assignment wins)
	leftovers := 0
	torn := 0
	for i, e := range p.Events {
		t := coreh.Tree{}
		for f := 0; f < e.Files; f++ {
			t[fmt.Sprintf("d%d/f%d", f%2, f)] = gen.Bytes(p.Seed, fmt.Sprintf("e%d-f%d", i, f%2), 10+r.Intn(5000))
		}
		src := env.MemConsumable(fmt.Sprint("src", i), t)
		switch e.Kind {
		case "upload":
			id, err := env.Upload(nil, "r", src.For(nil), coreh.UploadOpts{Leaf: 4096, Concurrency: 2})
			must(err)
			trees[id] = t
			for _, l := range e.Labels {
				must(env.SetLabel(nil, "r", l, id))
				labels[l] = id
			}
		case "crashed-upload", "torn-descriptor-upload", "descriptor-less-upload":
			a := memstore.NewActor(fmt.Sprint("victim", i)).CrashWhen(func(c memstore.Call) bool { return true }, e.CrashK, e.After)
			if e.Kind == "descriptor-less-upload" {
				a = memstore.NewActor(fmt.Sprint("victim", i)).CrashWhen(func(c memstore.Call) bool { return strings.HasSuffix(c.Key, "/bundle.yaml") }, 1, false)
				res.Stat("leftovers_with_file_list_and_no_descriptor", 1)
			}
			if e.Kind == "torn-descriptor-upload" {
				// the client dies while writing its descriptor on a store without atomic writes: an empty bundle.yaml stays
				a = memstore.NewActor(fmt.Sprint("victim", i)).CrashWhen(func(c memstore.Call) bool { return strings.HasSuffix(c.Key, "/bundle.yaml") }, 1, true).Torn()
				torn++
			}
			done := make(chan struct{})
			go func() {
				_, _ = env.Upload(a, "r", src.For(nil), coreh.UploadOpts{Leaf: 4096, Concurrency: 1})
				close(done)
			}()
			select {
			case <-a.Dead():
				leftovers++
			case <-done: // fewer writes than the crash point: this upload simply committed
			}
			time.Sleep(time.Millisecond)
		}
	}
	comm := committed(env)
	for _, id := range comm {
		if _, ok := trees[id]; !ok {
			// an upload meant to crash that had fewer writes than its crash point, or crashed after its descriptor landed
			_, ents, err := env.Entries(nil, "r", id)
			must(err)
			t := coreh.Tree{}
			for _, e := range ents {
				t[e.NameWithPath] = nil
			}
			trees[id] = nil // content not recorded: only presence is checked
			_ = t
		}
	}
	// is some leftover newer than the newest committed bundle?
	allIDs := map[string]bool{}
	for _, k := range env.Meta.RawKeys() {
		if strings.HasPrefix(k, "bundles/r/") {
			allIDs[strings.Split(k, "/")[2]] = true
		}
	}
	leftoverNewest := false
	for id := range allIDs {
		if len(comm) > 0 && id > comm[len(comm)-1] {
			leftoverNewest = true
		}
	}
	entriesBefore := map[string]string{}
	for _, id := range comm {
		_, ents, err := env.Entries(nil, "r", id)
		must(err)
		entriesBefore[id] = fmt.Sprint(ents)
	}
	r2Before := fmt.Sprint(env.Meta.Snapshot()["bundles/r2/"+committedOf(env, "r2")[0]+"/bundle.yaml"])

	// expected survivors
	survivors := map[string]bool{}
	for i := len(comm) - 1; i >= 0 && len(comm)-i <= p.RetainN; i-- {
		survivors[comm[i]] = true
	}
	for l, id := range labels {
		if p.Tags == "all" || (p.Tags == "semver" && isSemver(l)) {
			survivors[id] = true
		}
	}
	opts := []core.Option{core.WithRetainNLatest(p.RetainN)}
	switch p.Tags {
	case "all":
		opts = append(opts, core.WithRetainTags(true))
	case "semver":
		opts = append(opts, core.WithRetainSemverTags(true))
	}
	if p.Batch > 0 {
		opts = append(opts, core.BatchSize(p.Batch))
		res.Seen("batch_size", fmt.Sprint(p.Batch))
	}
	nObjects := len(env.Meta.RawKeys()) + len(env.VMeta.RawKeys())
	actor := memstore.NewActor("squasher").SetBudget(50*nObjects + 10000)
	faultDesc := ""
	if p.Fault > 0 {
		// first, on clones: EVERY store call of the squash that touches a label (and every 5th other call) fails once;
		// whatever the squash reports, the descriptors of the bundles to keep and the labels pointing at them remain
		{
			dry0 := env.Clone()
			da0 := memstore.NewActor("dry0")
			if derr := core.RepoSquash(dry0.Stores(da0), "r", opts...); derr == nil {
				var pts []int
				for _, e := range dry0.W.Log(0) {
					_ = e
				}
				n0, _ := da0.Calls()
				labelCalls := map[int]bool{}
				idx := 0
				for _, e := range dry0.W.Log(0) {
					if e.Actor != "dry0" {
						continue
					}
					idx++
					if strings.HasPrefix(e.Key, "labels/") {
						labelCalls[idx] = true
					}
				}
				for k := 1; k <= n0; k++ {
					if labelCalls[k] || k%5 == 0 {
						pts = append(pts, k)
					}
				}
				if len(pts) > 60 {
					pts = pts[:60]
				}
				for _, k := range pts {
					k := k
					ce := env.Clone()
					fa := memstore.NewActor("squasher-under-fault")
					desc := ""
					fa.SetFault(func(c memstore.Call) error {
						if c.Index == k {
							desc = fmt.Sprintf("store call %d of %d (%s.%s %s) fails", k, n0, c.Store, c.Op, c.Key)
							res.Seen("faulted_call_kinds", c.Store+"."+c.Op)
							return memstore.ErrInjected
						}
						return nil
					})
					serr := core.RepoSquash(ce.Stores(fa), "r", opts...)
					res.Stat("squashes_under_a_store_fault", 1)
					if serr != nil {
						res.Stat("squashes_reporting_the_fault", 1)
					}
					for id := range survivors {
						if raw, ok := ce.Meta.RawGet(model.GetArchivePathToBundle("r", id)); !ok || len(raw) == 0 {
							res.Violate("bundle-removed-by-faulted-squash", "a-bundle-to-keep", "squash (retain %d, tags %s) under a fault (%s; result %v) removed the descriptor of %s, which had to be kept (labels %v)", p.RetainN, p.Tags, desc, serr, id, labels)
							return
						}
					}
					for l, id := range labels {
						if survivors[id] {
							if _, ok := ce.VMeta.RawGet(model.GetArchivePathToLabel("r", l)); !ok {
								res.Violate("label-removed-by-faulted-squash", "label-of-a-kept-bundle", "squash (retain %d, tags %s) under a fault (%s; result %v) removed label %q of bundle %s, which had to be kept", p.RetainN, p.Tags, desc, serr, l, id)
								return
							}
						}
					}
				}
			}
		}
		dry := env.Clone()
		da := memstore.NewActor("dry")
		if derr := core.RepoSquash(dry.Stores(da), "r", opts...); derr == nil {
			n, _ := da.Calls()
			k := 1 + int(p.Fault*float64(n))
			if k > n {
				k = n
			}
			actor.SetFault(func(c memstore.Call) error {
				if c.Index == k {
					faultDesc = fmt.Sprintf("store call %d of %d (%s.%s %s) fails", k, n, c.Store, c.Op, c.Key)
					res.Seen("faulted_call_kinds", c.Store+"."+c.Op)
					return memstore.ErrInjected
				}
				return nil
			})
		}
	}
	if p.ViaContext {
		batch := p.Batch
		if batch == 0 {
			batch = 1024 // the flag's default
		}
		err = cmd.VerifContextSquash(env.Stores(actor), p.Tags == "all", p.Tags == "semver", p.RetainN, 500, batch)
		res.Stat("squashes_through_the_context_command", 1)
	} else {
		err = core.RepoSquash(env.Stores(actor), "r", opts...)
	}
	if faultDesc != "" {
		// whatever the squash reports under the fault, everything that had to be kept is still there: the descriptors
		// of the bundles to keep and the labels pointing at them
		res.Stat("squashes_under_a_store_fault", 1)
		if err != nil {
			res.Stat("squashes_reporting_the_fault", 1)
		}
		for id := range survivors {
			if raw, ok := env.Meta.RawGet(model.GetArchivePathToBundle("r", id)); !ok || len(raw) == 0 {
				res.Violate("bundle-removed-by-faulted-squash", "a-bundle-to-keep", "squash (retain %d, tags %s) under a fault (%s; result %v) removed the descriptor of %s, which had to be kept", p.RetainN, p.Tags, faultDesc, err, id)
				return
			}
		}
		for l, id := range labels {
			if !survivors[id] {
				continue
			}
			if _, ok := env.VMeta.RawGet(model.GetArchivePathToLabel("r", l)); !ok {
				res.Violate("label-removed-by-faulted-squash", "label-of-a-kept-bundle", "squash (retain %d, tags %s) under a fault (%s; result %v) removed label %q of bundle %s, which had to be kept", p.RetainN, p.Tags, faultDesc, err, l, id)
				return
			}
		}
		if err != nil {
			res.Nontrivial, res.Canon = len(comm) > 0, string(c.Params)
			res.Sample = map[string]interface{}{"committed": len(comm), "retain_n": p.RetainN, "tags": p.Tags, "fault": faultDesc, "squash_result": fmt.Sprint(err)}
			return
		}
	}
	calls, _ := actor.Calls()
	res.Stat("squashes", 1)
	res.Stat("store_calls_of_squash", int64(calls))
	cfg := fmt.Sprintf("tags=%s|leftover-newest=%v", p.Tags, leftoverNewest)
	if actor.OverBudget() {
		res.Violate("squash-does-not-terminate", fmt.Sprintf("delete-missing-nil=%v", p.DelNil), "RepoSquash issued more than %d store calls on %d objects (aborted by the budget): %v", 50*nObjects+10000, nObjects, err)
		return
	}
	if torn > 0 {
		// an empty descriptor makes listings fail on the unchanged tree, so squash may well refuse to run; whatever it
		// reports, the metadata of every bundle that must survive has to be in the store afterwards
		res.Stat("squashes_over_an_empty_descriptor", 1)
		if err != nil {
			res.Stat("squashes_refused_over_an_empty_descriptor", 1)
		}
		for id := range survivors {
			if raw, ok := env.Meta.RawGet(model.GetArchivePathToBundle("r", id)); !ok || len(raw) == 0 {
				cls := "a-bundle-to-keep"
				if len(comm) > 0 && id == comm[len(comm)-1] {
					cls = "most-recent-committed-bundle"
				}
				res.Violate("bundle-removed-by-squash-over-empty-descriptor", cls, "squash (retain %d, tags %s, result %v) removed the descriptor of %s, which had to be kept; committed before: %v (the repository also holds an empty bundle.yaml left by an interrupted upload)", p.RetainN, p.Tags, err, id, comm)
				return
			}
		}
		res.Nontrivial, res.Canon = len(comm) > 0, string(c.Params)
		res.Sample = map[string]interface{}{"committed": len(comm), "empty_descriptors": torn, "retain_n": p.RetainN, "tags": p.Tags, "squash_result": fmt.Sprint(err)}
		return
	}
	if err != nil {
		res.Violate("squash-failed", cfg, "RepoSquash(retain %d, tags %s) failed: %v", p.RetainN, p.Tags, err)
		return
	}
	bs, err := core.ListBundles("r", env.Stores(nil))
	if err != nil {
		res.Violate("list-failed", "after-squash", "ListBundles after squash: %v", err)
		return
	}
	got := map[string]bool{}
	for _, b := range bs {
		got[b.ID] = true
	}
	var want, gotl []string
	for id := range survivors {
		want = append(want, id)
	}
	for id := range got {
		gotl = append(gotl, id)
	}
	sort.Strings(want)
	sort.Strings(gotl)
	if len(comm) > 0 && !got[comm[len(comm)-1]] {
		res.Violate("most-recent-committed-bundle-removed", cfg, "squash (retain %d, tags %s) removed the most recent committed bundle %s; committed before: %v; %d leftover(s) of interrupted uploads, one newer: %v; survivors now: %v",
			p.RetainN, p.Tags, comm[len(comm)-1], comm, leftovers, leftoverNewest, gotl)
		return
	}
	if faultDesc != "" {
		// a squash that carried on after a failed store call may leave bundles it meant to remove (deletion ignores
		// errors on single objects by design): under a fault only losses are judged, not leftovers
		extra := false
		for _, id := range gotl {
			if !survivors[id] {
				extra = true
			}
		}
		missing := false
		for _, id := range want {
			if !got[id] {
				missing = true
			}
		}
		if extra && !missing {
			res.Stat("faulted_squashes_leaving_extra_bundles", 1)
			res.Nontrivial, res.Canon = len(comm) > 0, string(c.Params)
			res.Sample = map[string]interface{}{"committed": len(comm), "retain_n": p.RetainN, "tags": p.Tags, "fault": faultDesc, "squash_result": "nil, extra bundles left"}
			return
		}
	}
	if strings.Join(gotl, ",") != strings.Join(want, ",") {
		cls := "removed-too-many"
		if len(gotl) > len(want) {
			cls = "kept-too-many"
		}
		res.Violate("survivors-differ", cls+"|"+cfg, "squash (retain %d, tags %s): %d committed bundles, survivors %v, expected %v (labels %v)", p.RetainN, p.Tags, len(comm), gotl, want, labels)
		return
	}
	// labels
	ls, err := core.ListLabels("r", env.Stores(nil))
	if err != nil {
		res.Violate("list-labels-failed", "after-squash", "ListLabels after squash: %v", err)
		return
	}
	gotLabels := map[string]string{}
	for _, l := range ls {
		gotLabels[l.Name] = l.BundleID
	}
	wantLabels := map[string]string{}
	for l, id := range labels {
		if survivors[id] {
			wantLabels[l] = id
		}
	}
	if fmt.Sprint(gotLabels) != fmt.Sprint(wantLabels) {
		res.Violate("labels-differ", cfg, "after squash labels are %v, expected %v", gotLabels, wantLabels)
		return
	}
	// survivors intact
	for id := range survivors {
		_, ents, err := env.Entries(nil, "r", id)
		if err != nil || fmt.Sprint(ents) != entriesBefore[id] {
			res.Violate("survivor-altered", cfg, "surviving bundle %s: entries changed or unreadable (%v)", id, err)
			return
		}
		if t := trees[id]; t != nil {
			dest := env.W.Store("dest-" + id)
			if err := env.Publish(nil, "r", id, dest.For(nil), 4); err != nil {
				res.Violate("survivor-not-downloadable", cfg, "surviving bundle %s does not download: %v", id, err)
				return
			}
			if d := coreh.DiffTrees(coreh.WithoutMeta(coreh.StoreTree(dest)), t); d != "" {
				res.Violate("survivor-content", cfg, "surviving bundle %s: %s", id, d)
				return
			}
			res.Stat("survivors_downloaded", 1)
		}
	}
	if fmt.Sprint(env.Meta.Snapshot()["bundles/r2/"+committedOf(env, "r2")[0]+"/bundle.yaml"]) != r2Before {
		res.Violate("neighbour-touched", cfg, "squash of r altered repository r2")
	}
	if l, err := env.GetLabel(nil, "r2", "prod"); err != nil || l == "" {
		res.Violate("neighbour-touched", "label", "squash of r removed a label of r2")
	}
	res.Nontrivial = len(comm) > 0
	res.Canon = string(c.Params)
	res.Seen("retain_tags", p.Tags)
	res.Seen("retain_n", fmt.Sprint(p.RetainN))
	res.Seen("leftover_newest", fmt.Sprint(leftoverNewest))
	res.Stat("leftovers_of_crashed_uploads", int64(leftovers))
	res.Sample = map[string]interface{}{"committed": len(comm), "leftovers": leftovers, "leftover_newer_than_newest_committed": leftoverNewest, "retain_n": p.RetainN, "tags": p.Tags,
		"labels": labels, "survivors": len(survivors), "delete_missing_nil": p.DelNil}
}

func committedOf(env *coreh.Env, repo string) []string {
	var ids []string
	for _, k := range env.Meta.RawKeys() {
		if strings.HasPrefix(k, "bundles/"+repo+"/") && strings.HasSuffix(k, "/bundle.yaml") {
			ids = append(ids, strings.Split(k, "/")[2])
		}
	}
	sort.Strings(ids)
	return ids
}

func isSemver(l string) bool {
	for _, s := range semverLabels {
		if s == l {
			return true
		}
	}
	return false
}

func TestC10(t *testing.T) {
	drv.Main(t, drv.Driver{ID: "C10", Gen: gen10, Run: run10, CaseTimeout: 30 * time.Minute})
}
