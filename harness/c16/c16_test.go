package c16

import (
	"bytes"
	"context"
	"fmt"
	"io"
	"io/ioutil"
	"math/rand"
	"os"
	"runtime/debug"
	"sort"
	"strings"
	"sync"
	"sync/atomic"
	"testing"
	"time"

	"github.com/anishathalye/porcupine"
	"github.com/spf13/afero"
	"go.uber.org/zap"

	"github.com/oneconcern/datamon/pkg/storage"
	"github.com/oneconcern/datamon/pkg/storage/localfs"

	"verifharness/drv"
	"verifharness/gen"
	"verifharness/memstore"
)

// C16 — the local filesystem store behaves like an object store.
//
// Oracle: a reference map key -> bytes with the listing semantics of the reference store
// (memstore.ListItems: exact string prefix; with a delimiter the distinct sub-prefixes cut after the
// first delimiter following the prefix; lexicographic order). After every operation of a random history
// the observable state must agree. Concurrent exclusive writers: exactly one wins and its bytes remain.
// Concurrent PutX/Delete/Has histories are checked for linearizability (porcupine) against a per-key
// existence register.

type op struct {
	Op    string `json:"op"` // put | putx | delete | get | list | abandon
	Key   string `json:"key,omitempty"`
	Val   string `json:"val,omitempty"`
	Pre   string `json:"prefix,omitempty"`
	Delim string `json:"delim,omitempty"`
	Count int    `json:"count,omitempty"`
}

type params struct {
	Mode string `json:"mode"` // history | exclusive | linearizable
	Ops  []op   `json:"ops,omitempty"`
	K    int    `json:"writers,omitempty"`
	Seed int64  `json:"seed"`
	// Retry: the store keeps its default put-retry policy (a losing exclusive writer then retries for ~30 s)
	Retry bool `json:"default_retry,omitempty"`
	// Plain: sources are plain readers (no WriterTo), the other write path of Put
	Plain bool `json:"plain_reader,omitempty"`
}

var comps = []string{"a", "ab", "a-b", "a.b", "a b", "b", "é", "abc", "a_b"}

// genKeys builds a key universe in which no key is a directory prefix of another.
func genKeys(r *rand.Rand, n int) []string {
	files := map[string]bool{}
	dirs := map[string]bool{}
	var out []string
	for tries := 0; len(out) < n && tries < 200; tries++ {
		depth := 1 + r.Intn(4)
		var parts []string
		for i := 0; i < depth; i++ {
			parts = append(parts, comps[r.Intn(len(comps))])
		}
		k := strings.Join(parts, "/")
		if files[k] || dirs[k] {
			continue
		}
		bad := false
		for i := 1; i < len(parts); i++ {
			if files[strings.Join(parts[:i], "/")] {
				bad = true
			}
		}
		if bad {
			continue
		}
		files[k] = true
		for i := 1; i < len(parts); i++ {
			dirs[strings.Join(parts[:i], "/")] = true
		}
		out = append(out, k)
	}
	return out
}

func gen16(seed int64, tier string) []drv.Case {
	r := gen.Rand(seed, "c16")
	var cs []drv.Case
	add := func(class string, p params) {
		p.Seed = r.Int63()
		cs = append(cs, drv.Case{ID: fmt.Sprintf("%s-%d", class, len(cs)), Class: class, Params: drv.MustJSON(p)})
	}
	nh, ne, nl := 150, 40, 40
	if tier == "thorough" {
		nh, ne, nl = 5000, 600, 600
	}
	for i := 0; i < nh; i++ {
		keys := genKeys(r, 3+r.Intn(10))
		prefixes := []string{"", "a", "a/", "ab/", "a-b/", "zz", "zz/", "a/a", "a/ab/", "b/"}
		for _, k := range keys {
			if j := strings.LastIndex(k, "/"); j > 0 {
				prefixes = append(prefixes, k[:j+1], k[:j], k[:j+1]+k[j+1:j+2])
			}
		}
		var ops []op
		n := 20 + r.Intn(30)
		for j := 0; j < n; j++ {
			k := keys[r.Intn(len(keys))]
			switch x := r.Intn(20); {
			case x < 6:
				ops = append(ops, op{Op: "putx", Key: k, Val: fmt.Sprintf("v%d-%d", i, j)})
			case x < 9:
				ops = append(ops, op{Op: "put", Key: k, Val: fmt.Sprintf("w%d-%d", i, j)})
			case x < 12:
				ops = append(ops, op{Op: "delete", Key: k})
			case x < 13:
				// delete of a name that is no key: a directory-like prefix of existing keys, a key with a suffix, a missing
				// sibling (never a name below an existing key: a file system cannot hold both, see the key-universe rule) — a no-op for an object store, whatever it returns
				if i := strings.LastIndex(k, "/"); i > 0 && r.Intn(3) > 0 {
					ops = append(ops, op{Op: "delete", Key: k[:i]})
				} else {
					ops = append(ops, op{Op: "delete", Key: []string{k + "x", "nope-" + k}[r.Intn(2)]})
				}
			case x < 14:
				ops = append(ops, op{Op: "get", Key: k})
			case x < 15:
				ops = append(ops, op{Op: "abandon", Pre: prefixes[r.Intn(len(prefixes))], Delim: []string{"", "/", "-"}[r.Intn(3)], Count: 1 + r.Intn(2)})
				// two paged listings of the same prefix advanced alternately (different delimiters or page sizes)
				ops = append(ops, op{Op: "interleave", Pre: prefixes[r.Intn(len(prefixes))], Delim: []string{"", "/", "-"}[r.Intn(3)], Count: 1 + r.Intn(2)})
			default:
				ops = append(ops, op{Op: "list", Pre: prefixes[r.Intn(len(prefixes))], Delim: []string{"", "/", "/", "-"}[r.Intn(4)]})
			}
		}
		add("history", params{Mode: "history", Ops: ops})
	}
	for i := 0; i < ne; i++ {
		add("exclusive-writers", params{Mode: "exclusive", K: 2 + r.Intn(15)})
	}
	for i := 0; i < nl; i++ {
		add("linearizable", params{Mode: "linearizable", K: 3 + r.Intn(4)})
	}
	// concurrent transfers of large payloads into distinct keys, from sources of every kind (with and without WriteTo),
	// overwriting and create-if-absent: every key ends up with exactly what its only writer sent
	for i := 0; i < ne; i++ {
		add("concurrent-streams", params{Mode: "streams", K: 2 + r.Intn(9), Plain: i%3 != 2, Seed: r.Int63()})
	}
	// the default configuration of the store retries failed puts with exponential back-off for 30 s: the losers of an
	// exclusive write must still lose (two cases per tier unit, one per write path; each takes the 30 s the losers retry)
	nr := 1
	if tier == "thorough" {
		nr = 4
	}
	for i := 0; i < nr; i++ {
		add("exclusive-writers-default-retry", params{Mode: "exclusive", K: 2 + r.Intn(4), Retry: true})
		add("exclusive-writers-default-retry", params{Mode: "exclusive", K: 2 + r.Intn(4), Retry: true, Plain: true})
	}
	return cs
}

// fillReader is a plain io.Reader (no WriteTo, no Seek) delivering `left` bytes of one value, at most chunk per call.
type fillReader struct {
	left, chunk int
	fill        byte
}

func (f *fillReader) Read(p []byte) (int, error) {
	if f.left == 0 {
		return 0, io.EOF
	}
	n := len(p)
	if n > f.chunk {
		n = f.chunk
	}
	if n > f.left {
		n = f.left
	}
	for i := 0; i < n; i++ {
		p[i] = f.fill
	}
	f.left -= n
	return n, nil
}

func newStore(defaultRetry ...bool) (storage.Store, string, func()) {
	dir, err := os.MkdirTemp(os.Getenv("VERIF_SCRATCH"), "c16-")
	if err != nil {
		panic(err)
	}
	if len(defaultRetry) > 0 && defaultRetry[0] {
		return localfs.New(afero.NewBasePathFs(afero.NewOsFs(), dir), localfs.WithLogger(zap.NewNop())), dir, func() { os.RemoveAll(dir) }
	}
	return localfs.New(afero.NewBasePathFs(afero.NewOsFs(), dir), localfs.WithRetry(false), localfs.WithLogger(zap.NewNop())), dir, func() { os.RemoveAll(dir) }
}

// listAll pages through a listing; guards against non-terminating iterations.
func listAll(s storage.Store, prefix, delim string, count int) ([]string, error) {
	var all []string
	tok := ""
	for pages := 0; pages < 10000; pages++ {
		page, next, err := s.KeysPrefix(context.Background(), tok, prefix, delim, count)
		if err != nil {
			return all, err
		}
		if len(page) > count {
			return all, fmt.Errorf("page of %d items for count %d", len(page), count)
		}
		all = append(all, page...)
		if next == "" {
			return all, nil
		}
		tok = next
	}
	return all, fmt.Errorf("listing did not end after 10000 pages")
}

func sortedKeys(m map[string]string) []string {
	ks := make([]string, 0, len(m))
	for k := range m {
		ks = append(ks, k)
	}
	sort.Strings(ks)
	return ks
}

func classify(got, want []string) string {
	gs := append([]string(nil), got...)
	sort.Strings(gs)
	set := func(xs []string) map[string]int {
		m := map[string]int{}
		for _, x := range xs {
			m[x]++
		}
		return m
	}
	g, w := set(got), set(want)
	extra, missing, dup := false, false, false
	for k, n := range g {
		if w[k] == 0 {
			extra = true
		}
		if n > 1 {
			dup = true
		}
	}
	for k := range w {
		if g[k] == 0 {
			missing = true
		}
	}
	var cl []string
	if extra {
		cl = append(cl, "extra-items")
	}
	if missing {
		cl = append(cl, "missing-items")
	}
	if dup {
		cl = append(cl, "duplicates")
	}
	if len(cl) == 0 {
		cl = append(cl, "order")
	}
	return strings.Join(cl, "+")
}

func run16(c drv.Case, res *drv.Result) {
	var p params
	drv.Params(c, &p)
	s, _, cleanup := newStore(p.Retry)
	defer cleanup()
	ctx := context.Background()
	res.Canon = string(c.Params)
	res.Nontrivial = true
	switch p.Mode {
	case "history":
		model := map[string]string{}
		universe := map[string]bool{}
		for _, o := range p.Ops {
			if o.Key != "" {
				universe[o.Key] = true
			}
		}
		guard := func(what, sig string, f func()) (ok bool) {
			ok = true
			defer func() {
				if x := recover(); x != nil {
					ok = false
					st := string(debug.Stack())
					frame := ""
					for _, l := range strings.Split(st, "\n") {
						l = strings.TrimSpace(l)
						if strings.HasPrefix(l, "github.com/oneconcern/datamon/") {
							frame = strings.TrimPrefix(l[:strings.LastIndex(l, "(")], "github.com/oneconcern/datamon/")
							break
						}
					}
					res.Violate("panic", sig+"|"+frame, "%s panicked: %v", what, x)
				}
			}()
			f()
			return
		}
		checkList := func(prefix, delim string, step int, why string) bool {
			want := memstore.ListItems(sortedKeys(model), prefix, delim)
			counts := []int{1, 2, 3, len(want), len(want) + 1, 1000}
			for _, cnt := range counts {
				if cnt < 1 {
					continue
				}
				var got []string
				var err error
				if !guard(fmt.Sprintf("KeysPrefix(prefix=%q, delimiter=%q, count=%d)", prefix, delim, cnt), "KeysPrefix", func() { got, err = listAll(s, prefix, delim, cnt) }) {
					return false
				}
				res.Stat("listings_compared", 1)
				if err != nil {
					res.Violate("listing-error", "KeysPrefix", "step %d (%s): KeysPrefix(prefix=%q, delimiter=%q, count=%d): %v", step, why, prefix, delim, cnt, err)
					return false
				}
				if strings.Join(got, "\n") != strings.Join(want, "\n") {
					pcls := "prefix-without-trailing-slash"
					if strings.HasSuffix(prefix, "/") {
						pcls = "prefix-with-trailing-slash"
					}
					if prefix == "" {
						pcls = "empty-prefix"
					}
					res.Violate("listing-mismatch", classify(got, want)+"|"+pcls+"|delimiter="+delim+"|"+why,
						"step %d (%s): keys %v: KeysPrefix(prefix=%q, delimiter=%q) paged by %d returned %v, the object-store listing is %v", step, why, sortedKeys(model), prefix, delim, cnt, got, want)
					return false
				}
			}
			return true
		}
		for i, o := range p.Ops {
			ok := true
			switch o.Op {
			case "put", "putx":
				excl := o.Op == "putx"
				var err error
				if !guard("Put", "Put", func() { err = s.Put(ctx, o.Key, strings.NewReader(o.Val), excl) }) {
					return
				}
				_, exists := model[o.Key]
				if excl && exists {
					if err == nil {
						res.Violate("exclusive-put-overwrote", "sequential", "step %d: Put(NoOverWrite) on existing key %q succeeded", i, o.Key)
					}
				} else {
					if err != nil {
						res.Violate("put-failed", o.Op, "step %d: %s(%q) failed: %v", i, o.Op, o.Key, err)
						return
					}
					model[o.Key] = o.Val
				}
			case "delete":
				var err error
				if !guard("Delete", "Delete", func() { err = s.Delete(ctx, o.Key) }) {
					return
				}
				if _, exists := model[o.Key]; exists && err != nil {
					res.Violate("delete-failed", "existing", "step %d: Delete(%q) failed: %v", i, o.Key, err)
				}
				delete(model, o.Key)
			case "get":
			case "abandon":
				guard("KeysPrefix", "KeysPrefix", func() { _, _, _ = s.KeysPrefix(ctx, "", o.Pre, o.Delim, o.Count) })
				res.Stat("abandoned_listings", 1)
			case "interleave":
				type iter struct {
					delim string
					count int
					tok   string
					got   []string
					done  bool
				}
				other := map[string]string{"": "/", "/": "", "-": "/"}[o.Delim]
				its := []*iter{{delim: o.Delim, count: o.Count}, {delim: other, count: 3 - o.Count}}
				for pages := 0; pages < 4000 && !(its[0].done && its[1].done); pages++ {
					it := its[pages%2]
					if it.done {
						continue
					}
					var page []string
					var next string
					var err error
					if !guard("KeysPrefix", "KeysPrefix", func() { page, next, err = s.KeysPrefix(ctx, it.tok, o.Pre, it.delim, it.count) }) {
						return
					}
					if err != nil {
						res.Violate("listing-error", "KeysPrefix|interleaved", "step %d: interleaved KeysPrefix(prefix=%q, delimiter=%q, count=%d, token=%q): %v", i, o.Pre, it.delim, it.count, it.tok, err)
						return
					}
					it.got = append(it.got, page...)
					it.tok, it.done = next, next == ""
				}
				res.Stat("interleaved_listings", 1)
				for _, it := range its {
					want := memstore.ListItems(sortedKeys(model), o.Pre, it.delim)
					if !it.done || strings.Join(it.got, "\n") != strings.Join(want, "\n") {
						res.Violate("listing-mismatch", classify(it.got, want)+"|interleaved-with-another-listing-of-the-prefix|delimiter="+it.delim,
							"step %d: keys %v: KeysPrefix(prefix=%q, delimiter=%q) paged by %d, interleaved page by page with a listing of the same prefix with delimiter %q, returned %v (finished=%v); the object-store listing is %v",
							i, sortedKeys(model), o.Pre, it.delim, it.count, map[bool]string{true: its[1].delim, false: its[0].delim}[it == its[0]], it.got, it.done, want)
						return
					}
				}
			case "list":
				ok = checkList(o.Pre, o.Delim, i, "plain")
			}
			if !ok {
				return
			}
			res.Stat("operations", 1)
			// state agreement after every operation
			for k := range universe {
				want, exists := model[k]
				var has bool
				var herr error
				if !guard("Has", "Has", func() { has, herr = s.Has(ctx, k) }) {
					return
				}
				if herr != nil || has != exists {
					res.Violate("has-mismatch", fmt.Sprint(exists), "step %d: Has(%q) = %v, %v; model says %v", i, k, has, herr, exists)
					return
				}
				rc, gerr := s.Get(ctx, k)
				if exists {
					if gerr != nil {
						res.Violate("get-failed", "existing", "step %d: Get(%q): %v", i, k, gerr)
						return
					}
					b, _ := ioutil.ReadAll(rc)
					rc.Close()
					if string(b) != want {
						res.Violate("get-mismatch", "bytes", "step %d: Get(%q) = %q, last written %q", i, k, b, want)
						return
					}
					at, aerr := s.GetAttr(ctx, k)
					if aerr != nil || at.Size != int64(len(want)) {
						res.Violate("getattr-mismatch", "size", "step %d: GetAttr(%q) = %d, %v; expected size %d", i, k, at.Size, aerr, len(want))
					}
				} else if gerr == nil {
					b, rerr := ioutil.ReadAll(rc)
					rc.Close()
					if rerr == nil {
						res.Violate("get-of-missing-key", "no-error", "step %d: Get(%q) of a missing key returned %d bytes without error", i, k, len(b))
						return
					}
				}
			}
			var keys []string
			var kerr error
			if !guard("Keys", "Keys", func() { keys, kerr = s.Keys(ctx) }) {
				return
			}
			sort.Strings(keys)
			if kerr != nil || strings.Join(keys, "\n") != strings.Join(sortedKeys(model), "\n") {
				res.Violate("keys-mismatch", "set", "step %d: Keys() = %v, %v; model %v", i, keys, kerr, sortedKeys(model))
				return
			}
		}
		// final sweep: every prefix x delimiter
		pre := map[string]bool{"": true}
		for k := range universe {
			for j := 1; j <= len(k); j++ {
				if k[j-1] == '/' || j == len(k) || j%2 == 0 {
					pre[k[:j]] = true
				}
			}
		}
		var pl []string
		for x := range pre {
			pl = append(pl, x)
		}
		sort.Strings(pl)
		for _, x := range pl {
			for _, d := range []string{"", "/", "-"} {
				if !checkList(x, d, len(p.Ops), "final-sweep") {
					return
				}
			}
		}
		res.Sample = map[string]interface{}{"ops": p.Ops[:min(8, len(p.Ops))], "final_keys": sortedKeys(model), "prefixes_swept": len(pl)}
	case "streams":
		sr := rand.New(rand.NewSource(p.Seed))
		type job struct {
			key   string
			n     int
			fill  byte
			chunk int
			excl  bool
		}
		jobs := make([]job, p.K)
		for g := range jobs {
			jobs[g] = job{key: fmt.Sprintf("streams/k%d", g), n: []int{40 << 10, 256 << 10, 300 << 10, 1 << 20, 3 << 20}[sr.Intn(5)] + sr.Intn(5000),
				fill: byte('a' + g), chunk: []int{512, 4096, 32 << 10, 1 << 20}[sr.Intn(4)], excl: sr.Intn(2) == 0}
		}
		for round := 0; round < 3; round++ {
			var wg sync.WaitGroup
			errs := make([]error, p.K)
			start := make(chan struct{})
			for g := range jobs {
				wg.Add(1)
				go func(g int) {
					defer wg.Done()
					j := jobs[g]
					var src io.Reader = &fillReader{left: j.n, fill: j.fill + byte(round), chunk: j.chunk}
					if !p.Plain {
						src = bytes.NewReader(bytes.Repeat([]byte{j.fill + byte(round)}, j.n))
					}
					<-start
					errs[g] = s.Put(ctx, fmt.Sprintf("%s-r%d", j.key, round), src, j.excl)
				}(g)
			}
			close(start)
			wg.Wait()
			for g, j := range jobs {
				key := fmt.Sprintf("%s-r%d", j.key, round)
				if errs[g] != nil {
					res.Violate("put-failed", "streams", "round %d: Put(%s, %d bytes) among %d concurrent transfers into distinct keys failed: %v", round, key, j.n, p.K, errs[g])
					return
				}
				rc, err := s.Get(ctx, key)
				if err != nil {
					res.Violate("get-failed", "streams", "Get(%s) after its Put succeeded: %v", key, err)
					return
				}
				b, _ := ioutil.ReadAll(rc)
				rc.Close()
				want := j.fill + byte(round)
				bad := -1
				for i, c := range b {
					if c != want {
						bad = i
						break
					}
				}
				if len(b) != j.n || bad >= 0 {
					at := byte(0)
					if bad >= 0 {
						at = b[bad]
					}
					res.Violate("bytes-of-another-writer", fmt.Sprintf("plain-reader=%v", p.Plain), "round %d: key %s was written once, by a writer sending %d bytes %q; it holds %d bytes and byte %d is %q (%d concurrent transfers into distinct keys, sources without WriteTo: %v)",
						round, key, j.n, want, len(b), bad, at, p.K, p.Plain)
					return
				}
				res.Stat("concurrent_transfers_read_back", 1)
			}
		}
		res.Sample = map[string]interface{}{"writers": p.K, "plain_readers": p.Plain, "rounds": 3}
	case "exclusive":
		var wg sync.WaitGroup
		errs := make([]error, p.K)
		start := make(chan struct{})
		for g := 0; g < p.K; g++ {
			wg.Add(1)
			go func(g int) {
				defer wg.Done()
				<-start
				var src io.Reader = strings.NewReader(fmt.Sprintf("writer-%d-%s", g, strings.Repeat("x", 3000+g)))
				if p.Plain {
					src = struct{ io.Reader }{src}
				}
				if p.Retry && g == p.K-1 {
					time.Sleep(50 * time.Millisecond) // a late writer: the key certainly exists when it starts
				}
				errs[g] = s.Put(ctx, "dir/key", src, storage.NoOverWrite)
			}(g)
		}
		close(start)
		wg.Wait()
		winners := []int{}
		for g, e := range errs {
			if e == nil {
				winners = append(winners, g)
			}
		}
		res.Stat("exclusive_write_races", 1)
		if len(winners) != 1 {
			res.Violate("exclusive-winners", fmt.Sprint(min(len(winners), 2)), "%d concurrent Put(NoOverWrite) of one key: %d succeeded", p.K, len(winners))
			return
		}
		rc, err := s.Get(ctx, "dir/key")
		if err != nil {
			res.Violate("get-failed", "after-exclusive", "Get after the race: %v", err)
			return
		}
		b, _ := ioutil.ReadAll(rc)
		rc.Close()
		want := fmt.Sprintf("writer-%d-%s", winners[0], strings.Repeat("x", 3000+winners[0]))
		if !bytes.Equal(b, []byte(want)) {
			res.Violate("exclusive-bytes", "not-winners", "after quiescence the key holds %d bytes starting %q, the winner wrote %d bytes starting %q", len(b), head(string(b)), len(want), head(want))
		}
		res.Sample = map[string]interface{}{"writers": p.K, "winner": winners[0]}
	case "linearizable":
		type in struct {
			Op, Key string
		}
		var clock int64
		var mu sync.Mutex
		var hist []porcupine.Operation
		var wg sync.WaitGroup
		for g := 0; g < p.K; g++ {
			wg.Add(1)
			go func(g int) {
				defer wg.Done()
				r := rand.New(rand.NewSource(p.Seed + int64(g)))
				for i := 0; i < 25; i++ {
					x := in{Op: []string{"putx", "putx", "delete", "has"}[r.Intn(4)], Key: fmt.Sprintf("d/k%d", r.Intn(3))}
					var out bool
					call := atomic.AddInt64(&clock, 1)
					switch x.Op {
					case "putx":
						out = s.Put(ctx, x.Key, strings.NewReader(fmt.Sprintf("%d-%d", g, i)), storage.NoOverWrite) == nil
					case "delete":
						out = s.Delete(ctx, x.Key) == nil
					case "has":
						out, _ = s.Has(ctx, x.Key)
					}
					ret := atomic.AddInt64(&clock, 1)
					mu.Lock()
					hist = append(hist, porcupine.Operation{ClientId: g, Input: x, Call: call, Output: out, Return: ret})
					mu.Unlock()
				}
			}(g)
		}
		wg.Wait()
		m := porcupine.Model{
			Partition: func(h []porcupine.Operation) [][]porcupine.Operation {
				by := map[string][]porcupine.Operation{}
				for _, o := range h {
					by[o.Input.(in).Key] = append(by[o.Input.(in).Key], o)
				}
				var out [][]porcupine.Operation
				for _, v := range by {
					out = append(out, v)
				}
				return out
			},
			Init: func() interface{} { return false },
			Step: func(st, i, o interface{}) (bool, interface{}) {
				exists, x, ok := st.(bool), i.(in), o.(bool)
				switch x.Op {
				case "putx":
					if exists {
						return !ok, true
					}
					return ok, true
				case "delete":
					return ok, false // deleting a missing key also succeeds on this back end
				case "has":
					return ok == exists, exists
				}
				return false, st
			},
		}
		r, _ := porcupine.CheckOperationsVerbose(m, hist, 2*time.Minute)
		res.Stat("linearizability_histories_checked", 1)
		res.Stat("history_operations", int64(len(hist)))
		switch r {
		case porcupine.Illegal:
			res.Violate("not-linearizable", "putx-delete-has", "a concurrent history of %d PutX/Delete/Has operations over 3 keys is not linearizable w.r.t. an existence register", len(hist))
		case porcupine.Unknown:
			res.Skipped = "porcupine timed out (inconclusive)"
		}
		res.Sample = map[string]interface{}{"clients": p.K, "operations": len(hist)}
	}
}

func head(s string) string {
	if len(s) > 12 {
		return s[:12]
	}
	return s
}

func min(a, b int) int {
	if a < b {
		return a
	}
	return b
}

func TestC16(t *testing.T) {
	drv.Main(t, drv.Driver{ID: "C16", Gen: gen16, Run: run16, CaseTimeout: 15 * time.Minute})
}
