package c19

import (
	"context"
	"fmt"
	"math/rand"
	"sort"
	"strings"
	"sync"
	"sync/atomic"
	"testing"
	"time"

	"github.com/segmentio/ksuid"
	"go.uber.org/zap"

	"github.com/oneconcern/datamon/pkg/wal"

	"verifharness/drv"
	"verifharness/gen"
	"verifharness/memstore"
)

// C19 — the write-ahead log returns what was appended, in token order.
//
// Store: the reference store in start-key mode (the listing contract the log is written against) with a
// virtual clock that advances at every Touch/Put, so that many seconds and several look-back windows pass
// without sleeping. Oracle: tokens unique; token time is a time the store handed out (never the local
// wall clock); for sequential appends an earlier second means a smaller token; ListEntries(from, max) ==
// the first min(max, 1000) appended tokens >= ksuid(time(from) - 20 min, zero payload), ascending, no
// duplicates, each with exactly the payload appended; a non-empty continuation is the next such token.

type params struct {
	Adders   int    `json:"adders"`
	Entries  int    `json:"entries"`
	Seed     int64  `json:"seed"`
	Chunked  int    `json:"store_reader_chunk"`
	ClockCls string `json:"clock"` // dense | sparse | jumps
	ConcMax  int    `json:"max_concurrency"`
	// TokenPath: the log uses this token generator object instead of the default one (wal.TokenGeneratorPath);
	// Neighbour: another log with default options lives in the same stores and has appended before
	TokenPath string `json:"token_generator_path,omitempty"`
	Neighbour bool   `json:"neighbour_log_on_default_path,omitempty"`
}

func gen19(seed int64, tier string) []drv.Case {
	r := gen.Rand(seed, "c19")
	n := 40
	if tier == "thorough" {
		n = 1000
	}
	var cs []drv.Case
	for i := 0; i < n; i++ {
		p := params{Adders: []int{1, 1, 2, 4, 8, 16}[r.Intn(6)], Seed: r.Int63(), ClockCls: []string{"dense", "sparse", "jumps"}[r.Intn(3)]}
		switch r.Intn(10) {
		case 0:
			p.Entries = 1000 + r.Intn(500)
		case 1, 2:
			p.Entries = 1 + r.Intn(10)
		default:
			p.Entries = 10 + r.Intn(200)
		}
		if tier != "thorough" && i > 2 && p.Entries > 400 {
			p.Entries = 100
		}
		if r.Intn(3) == 0 {
			p.Chunked = []int{1, 100, 1024}[r.Intn(3)]
		}
		if r.Intn(4) == 0 {
			p.ConcMax = 1 + r.Intn(4)
		}
		cls := fmt.Sprintf("adders%d-%s", p.Adders, p.ClockCls)
		if i%3 == 1 {
			p.TokenPath = fmt.Sprintf("custom/generator-%d", r.Intn(100))
			p.Neighbour = r.Intn(3) > 0
			cls += "-custom-token-path"
		}
		cs = append(cs, drv.Case{ID: fmt.Sprintf("wal-%d", i), Class: cls, Params: drv.MustJSON(p)})
	}
	return cs
}

func payload(r *rand.Rand, i int) string {
	if r.Intn(40) == 0 {
		// large entries around powers of two (buffer sizes), up to 1 MiB
		n := []int{4095, 4096, 4097, 32768, 65535, 65536, 65537, 131073, 1 << 20}[r.Intn(9)]
		b := []byte(strings.Repeat(fmt.Sprintf("%06d|", i), n/7+1))
		return string(b[:n])
	}
	switch r.Intn(12) {
	case 0:
		return ""
	case 1:
		return fmt.Sprintf("one line %d", i)
	case 2:
		return fmt.Sprintf("multi\nline\n%d\n", i)
	case 3:
		return strings.Repeat("a", 1023)
	case 4:
		return strings.Repeat("b", 1024)
	case 5:
		return strings.Repeat("c", 1025) + fmt.Sprint(i)
	case 6:
		return strings.Repeat("0123456789", 500)
	case 7:
		return fmt.Sprintf("token: x%d\npayload: y\n", i)
	case 8:
		return "- a\n- b\n"
	case 9:
		b := make([]byte, 1+r.Intn(300))
		r.Read(b)
		return string(b)
	case 10:
		return "{unclosed: [yaml"
	}
	return fmt.Sprintf("repo=r bundle=%d contributor=é", i)
}

type added struct {
	token, payload string
	call, ret      int64
}

func run19(c drv.Case, res *drv.Result) {
	var p params
	drv.Params(c, &p)
	r := rand.New(rand.NewSource(p.Seed))
	var smu sync.Mutex
	step := func() time.Duration {
		smu.Lock()
		defer smu.Unlock()
		switch p.ClockCls {
		case "dense":
			return time.Duration(r.Intn(300)) * time.Millisecond
		case "sparse":
			return time.Duration(r.Intn(1500)) * time.Millisecond
		}
		if r.Intn(15) == 0 {
			return 25 * time.Minute
		}
		return time.Duration(r.Intn(1500)) * time.Millisecond
	}
	w := memstore.NewWorld(memstore.Config{StartKeyToken: true, ChunkedReader: p.Chunked})
	clk := memstore.NewStepClock(time.Date(2031, 5, 1, 0, 0, 0, 0, time.UTC), step)
	w.Clock = clk
	mutable, walS := w.Store("vmeta"), w.Store("wal")
	opts := []wal.Option{wal.Logger(zap.NewNop())}
	if p.ConcMax > 0 {
		opts = append(opts, wal.MaxConcurrency(p.ConcMax))
	}
	ctx := context.Background()
	if p.Neighbour {
		nb := wal.New(mutable.For(memstore.NewActor("neighbour")), w.Store("wal-neighbour").For(memstore.NewActor("neighbour")), wal.Logger(zap.NewNop()))
		if _, err := nb.Add(ctx, "neighbour entry"); err != nil {
			res.Violate("add-failed", "neighbour", "Add on the neighbouring log failed without any injected fault: %v", err)
			return
		}
	}
	if p.TokenPath != "" {
		opts = append(opts, wal.TokenGeneratorPath(p.TokenPath))
	}
	lg := wal.New(mutable.For(memstore.NewActor("w")), walS.For(memstore.NewActor("w")), opts...)

	// ---- appends
	var seq int64
	var mu sync.Mutex
	var adds []added
	var wg sync.WaitGroup
	per := (p.Entries + p.Adders - 1) / p.Adders
	for g := 0; g < p.Adders; g++ {
		wg.Add(1)
		pr := rand.New(rand.NewSource(p.Seed + int64(g) + 1))
		go func(g int) {
			defer wg.Done()
			for i := 0; i < per; i++ {
				pl := payload(pr, g*per+i)
				call := atomic.AddInt64(&seq, 1)
				tok, err := lg.Add(ctx, pl)
				ret := atomic.AddInt64(&seq, 1)
				mu.Lock()
				if err != nil {
					res.Violate("add-failed", "no-fault", "Add failed without any injected fault: %v", err)
				} else {
					adds = append(adds, added{tok, pl, call, ret})
				}
				mu.Unlock()
			}
		}(g)
	}
	wg.Wait()
	if len(res.Violations) > 0 {
		return
	}
	res.Stat("entries_appended", int64(len(adds)))

	// ---- token oracle
	handed := map[int64]bool{}
	for _, t := range clk.Times() {
		handed[t.Unix()] = true
	}
	byTok := map[string]added{}
	for _, a := range adds {
		k, err := ksuid.Parse(a.token)
		if err != nil {
			res.Violate("token-not-ksuid", "parse", "token %q: %v", a.token, err)
			return
		}
		if _, dup := byTok[a.token]; dup {
			res.Violate("token-not-unique", "dup", "token %s issued twice", a.token)
		}
		byTok[a.token] = a
		if !handed[k.Time().Unix()] {
			res.Violate("token-time-not-from-store", "clock", "token %s carries time %s which the store's clock never handed out (store time is around %s)", a.token, k.Time().UTC(), clk.Times()[0].UTC())
			return
		}
	}
	// every append touches the token generator once and its token must carry THAT time: the seconds of the tokens,
	// as a multiset, are the seconds of the landed touches (a token dated from an earlier touch would sort before
	// entries of its own second's predecessors and fall out of look-back windows)
	// (single adder only: with concurrent adders a token may legitimately carry the time of a later touch by another
	// adder, since the generator is touched and then read)
	// (any number of adders: a token's second is the second of SOME landed touch this log made — never the creation
	// time of the generator object or the time of somebody else's touch of another object)
	ownTouch := map[int64]bool{}
	for _, e := range w.Log(0) {
		if e.Op == "touch" && e.Landed && e.Actor == "w" {
			ownTouch[time.Unix(0, e.T).Unix()] = true
		}
	}
	for _, a := range adds {
		k, _ := ksuid.Parse(a.token)
		if !ownTouch[k.Time().Unix()] {
			res.Violate("token-time-not-its-own-touch", "set", "token %s carries second %d, but no touch of the token generator by this log landed in that second (%d distinct touch seconds)", a.token, k.Time().Unix(), len(ownTouch))
			break
		}
	}
	if p.Adders == 1 {
		var touchSecs, tokenSecs []int64
		for _, e := range w.Log(0) {
			if e.Op == "touch" && e.Landed && e.Actor == "w" {
				touchSecs = append(touchSecs, time.Unix(0, e.T).Unix())
			}
		}
		for _, a := range adds {
			k, _ := ksuid.Parse(a.token)
			tokenSecs = append(tokenSecs, k.Time().Unix())
		}
		sort.Slice(touchSecs, func(i, j int) bool { return touchSecs[i] < touchSecs[j] })
		sort.Slice(tokenSecs, func(i, j int) bool { return tokenSecs[i] < tokenSecs[j] })
		if len(touchSecs) == len(tokenSecs) {
			for i := range tokenSecs {
				if tokenSecs[i] != touchSecs[i] {
					res.Violate("token-time-not-its-own-touch", "multiset", "the %d-th smallest token second is %d, the %d-th smallest touch of the token generator happened in second %d: some token does not carry the time of its own append", i, tokenSecs[i], i, touchSecs[i])
					break
				}
			}
			res.Stat("token_times_matched_with_touches", int64(len(tokenSecs)))
		} else {
			res.Stat("appends_with_touch_count_mismatch", 1)
		}
	}
	seqAdds := append([]added(nil), adds...)
	sort.Slice(seqAdds, func(i, j int) bool { return seqAdds[i].call < seqAdds[j].call })
	for i := 0; i < len(seqAdds); i++ {
		for j := i + 1; j < len(seqAdds) && j < i+40; j++ {
			a, b := seqAdds[i], seqAdds[j]
			if a.ret < b.call { // a completed before b started
				ka, _ := ksuid.Parse(a.token)
				kb, _ := ksuid.Parse(b.token)
				if ka.Time().Unix() > kb.Time().Unix() || (ka.Time().Unix() < kb.Time().Unix() && !(a.token < b.token)) {
					res.Violate("token-order", "sequential-appends", "append %s (second %d) completed before append %s (second %d) started, but the tokens do not sort accordingly", a.token, ka.Time().Unix(), b.token, kb.Time().Unix())
				}
			}
		}
	}
	secs := map[int64]bool{}
	for _, a := range adds {
		k, _ := ksuid.Parse(a.token)
		secs[k.Time().Unix()] = true
	}
	res.Stat("distinct_seconds_spanned", int64(len(secs)))

	// ---- listing oracle
	all := make([]string, 0, len(adds))
	for _, a := range adds {
		all = append(all, a.token)
	}
	sort.Strings(all)
	window := 20 * time.Minute
	expect := func(from string, max int) ([]string, string) {
		k, _ := ksuid.Parse(from)
		lo, _ := ksuid.FromParts(k.Time().Add(-window), make([]byte, 16))
		start := sort.SearchStrings(all, lo.String())
		if max > 1000 {
			max = 1000
		}
		end := start + max
		if end > len(all) {
			end = len(all)
		}
		next := ""
		if end < len(all) {
			next = all[end]
		}
		return all[start:end], next
	}
	type query struct {
		from string
		max  int
		cls  string
	}
	var qs []query
	maxes := []int{1, 2, 999, 1000, 1 + r.Intn(50), 1 + r.Intn(2000)}
	for i := 0; i < len(all); i += 1 + len(all)/12 {
		qs = append(qs, query{all[i], maxes[r.Intn(len(maxes))], "issued-token"})
	}
	qs = append(qs, query{all[0], 1000, "first-token"}, query{all[len(all)-1], 1000, "last-token"}, query{all[0], 2000, "first-token"})
	synth := func(t time.Time) string {
		pl := make([]byte, 16)
		r.Read(pl)
		k, _ := ksuid.FromParts(t, pl)
		return k.String()
	}
	k0, _ := ksuid.Parse(all[0])
	kn, _ := ksuid.Parse(all[len(all)-1])
	qs = append(qs, query{synth(k0.Time().Add(-time.Hour)), 10, "synthetic-before"}, query{synth(kn.Time().Add(time.Hour)), 10, "synthetic-after"},
		query{synth(kn.Time().Add(19 * time.Minute)), 1000, "synthetic-after-within-window"})
	for i := 0; i < 6; i++ {
		a := all[r.Intn(len(all))]
		ka, _ := ksuid.Parse(a)
		qs = append(qs, query{synth(ka.Time().Add(time.Duration(r.Intn(3000)-1500) * time.Second)), maxes[r.Intn(len(maxes))], "synthetic-between"})
	}
	for _, q := range qs {
		want, wantNext := expect(q.from, q.max)
		entries, next, err := lg.ListEntries(ctx, q.from, q.max)
		res.Stat("listings_compared", 1)
		if err != nil {
			res.Violate("list-failed", q.cls, "ListEntries(%s, %d) failed: %v", q.from, q.max, err)
			return
		}
		got := make([]string, 0, len(entries))
		for _, e := range entries {
			got = append(got, e.Token)
		}
		if strings.Join(got, ",") != strings.Join(want, ",") {
			cls := "tokens"
			if len(got) == len(want) {
				cls = "tokens-same-count"
			}
			res.Violate("list-mismatch", cls+"|"+q.cls, "ListEntries(from=%s, max=%d) over %d appended entries returned %d entries (first %v), expected %d (first %v)",
				q.from, q.max, len(all), len(got), headOf(got), len(want), headOf(want))
			return
		}
		for _, e := range entries {
			if a := byTok[e.Token]; a.payload != e.Payload {
				res.Violate("payload-mismatch", payloadClass(a.payload), "entry %s: appended payload %q (%d bytes), listed payload %q (%d bytes)", e.Token, clip(a.payload), len(a.payload), clip(e.Payload), len(e.Payload))
				return
			}
		}
		if len(want) > 0 && next != wantNext {
			res.Violate("continuation-mismatch", q.cls, "ListEntries(from=%s, max=%d) returned continuation %q, the next appended token is %q", q.from, q.max, next, wantNext)
			return
		}
		res.Stat("entries_compared", int64(len(entries)))
	}
	res.Nontrivial = len(adds) >= 2
	res.Canon = string(c.Params)
	res.Sample = map[string]interface{}{"params": p, "first_token": all[0], "last_token": all[len(all)-1], "listings": len(qs), "seconds_spanned": len(secs)}
}

func headOf(xs []string) []string {
	if len(xs) > 2 {
		return xs[:2]
	}
	return xs
}

func clip(s string) string {
	if len(s) > 40 {
		return s[:40] + "…"
	}
	return s
}

func payloadClass(s string) string {
	switch {
	case s == "":
		return "empty"
	case len(s) > 1024:
		return "longer-than-1024"
	case strings.Contains(s, "\n"):
		return "multi-line"
	}
	return "short"
}

func TestC19(t *testing.T) {
	drv.Main(t, drv.Driver{ID: "C19", Gen: gen19, Run: run19, CaseTimeout: 15 * time.Minute})
}
