package c02

import (
	"bytes"
	"crypto/sha256"
	"encoding/hex"
	"fmt"
	"sort"
	"sync"
	"testing"
	"time"

	"github.com/oneconcern/datamon/pkg/cafs"

	"verifharness/cafsh"
	"verifharness/drv"
	"verifharness/gen"
	"verifharness/memstore"
)

// C02 — object keys are a deterministic BLAKE2b tree hash of the content.
//
// In-process oracle clauses: same content => same key whatever the chunking / flush concurrency /
// prior store content; second Put => Found, same key, every pre-existing object byte-identical and no
// overwriting Put of a non-empty blob in the store log; distinct contents => distinct keys; root blob
// == leaf keys || root key; leaf blobs == the content's leaves. Offline oracle (Python hashlib): the
// key equals the independent BLAKE2b tree root (pyoracle/blake2tree.py, anchored on published vectors and keys of the pinned commit).

type item struct {
	Label string       `json:"label"`
	Len   int          `json:"len"`
	Src   cafsh.Source `json:"src"`
	Flush int          `json:"flush"`
	// Derive: "" fresh content | "same:<i>" | "prefix:<i>:<n>" | "lastbyte:<i>" | "pluszero:<i>" | "shareleaves:<i>:<k>"
	Derive string `json:"derive,omitempty"`
}

type params struct {
	Leaf    int    `json:"leaf"`
	Seed    int64  `json:"seed"`
	Items   []item `json:"items"`
	NoCRC   bool   `json:"no_crc"`
	PreSeed bool   `json:"preseed_empty_blob"` // an empty blob sits under the key of the first item's first leaf
	// family "leaf-write-fault": Items[0] is stored Trials times into fresh stores whose write of leaf FaultLeaf
	// (0-based; -1: the last leaf) fails; the other writes take 0..Jitter microseconds
	Trials    int `json:"trials,omitempty"`
	FaultLeaf int `json:"fault_leaf,omitempty"`
	Jitter    int `json:"jitter_us,omitempty"`
}

const MiB = 1 << 20

func gen02(seed int64, tier string) []drv.Case {
	r := gen.Rand(seed, "c02")
	var cs []drv.Case
	add := func(class string, p params) {
		p.Seed = r.Int63()
		cs = append(cs, drv.Case{ID: fmt.Sprintf("%s-%d", class, len(cs)), Class: class, Params: drv.MustJSON(p)})
	}
	srcs := func(leaf int) []cafsh.Source {
		return []cafsh.Source{{Kind: "single"}, {Kind: "wt-rand", Seed: r.Int63()}, {Kind: "rd-rand", Seed: r.Int63()}, {Kind: "wt-fixed", Chunk: leaf - 1},
			{Kind: "wt-fixed", Chunk: leaf + 1}, {Kind: "rd-fixed", Chunk: 7}, {Kind: "wt-fixed", Chunk: 3 * leaf}, {Kind: "eof-together", Chunk: leaf}, {Kind: "half"}}
	}
	flush := func() int { return []int{1, 2, 3, 10, 16}[r.Intn(5)] }
	lens := func(leaf int) []int {
		ls := []int{0, 1, 63, 64, 65}
		for k := 1; k <= 6; k++ {
			ls = append(ls, k*leaf-1, k*leaf, k*leaf+1)
		}
		return append(ls, 1+r.Intn(6*leaf))
	}
	// single contents under several chunkings: all must give the same key, and the Python oracle's key
	reps := 1
	if tier == "thorough" {
		reps = 12
	}
	for rep := 0; rep < reps; rep++ {
		for _, leaf := range []int{64, 65, 100, 4096, 64 * 1024} {
			for _, l := range lens(leaf) {
				if leaf >= 4096 && tier != "thorough" && r.Intn(3) != 0 {
					continue
				}
				ss := srcs(leaf)
				var items []item
				for j := 0; j < 3; j++ {
					d := ""
					if j > 0 {
						d = "same:0"
					}
					items = append(items, item{Label: fmt.Sprintf("x%d", len(cs)), Len: l, Src: ss[r.Intn(len(ss))], Flush: flush(), Derive: d})
				}
				add(fmt.Sprintf("chunkings-leaf%d", leaf), params{Leaf: leaf, Items: items, NoCRC: r.Intn(4) == 0})
			}
		}
	}
	nbig := 6
	if tier == "thorough" {
		nbig = 80
	}
	for i := 0; i < nbig; i++ {
		leaf := []int{MiB, MiB + MiB/2, 2 * MiB, 5 * MiB}[i%4]
		ls := lens(leaf)
		l := ls[r.Intn(len(ls))]
		if l > 3*leaf {
			l -= 3 * leaf
		}
		ss := srcs(leaf)
		add(fmt.Sprintf("chunkings-leaf%d", leaf), params{Leaf: leaf, Items: []item{
			{Label: fmt.Sprintf("b%d", i), Len: l, Src: ss[r.Intn(len(ss))], Flush: flush()},
			{Label: fmt.Sprintf("b%d", i), Len: l, Src: ss[r.Intn(len(ss))], Flush: flush(), Derive: "same:0"}}})
	}
	// one leaf write fails while the others are in flight: the Put must not hand out a key for a shorter content
	nf := 24
	if tier == "thorough" {
		nf = 400
	}
	for i := 0; i < nf; i++ {
		leaf := []int{64, 100, 1024, 4096}[r.Intn(4)]
		nl := 2 + r.Intn(11)
		l := nl * leaf
		if r.Intn(3) == 0 {
			l += 1 + r.Intn(leaf-1)
			nl++
		}
		fl := []int{-1, -1, nl - 2, 0, r.Intn(nl)}[r.Intn(5)]
		ss := srcs(leaf)
		add("leaf-write-fault", params{Leaf: leaf, Trials: 40, FaultLeaf: fl, Jitter: []int{0, 0, 20, 200}[r.Intn(4)],
			Items: []item{{Label: fmt.Sprintf("f%d", i), Len: l, Src: ss[r.Intn(len(ss))], Flush: []int{2, 3, 4, 8, 16}[r.Intn(5)]}}})
	}
	// histories into one shared store
	nh := 60
	if tier == "thorough" {
		nh = 2000
	}
	for i := 0; i < nh; i++ {
		leaf := []int{64, 100, 4096}[r.Intn(3)]
		ss := srcs(leaf)
		n := 3 + r.Intn(6)
		var items []item
		for j := 0; j < n; j++ {
			it := item{Label: fmt.Sprintf("h%d-%d", i, j), Len: r.Intn(6*leaf + 2), Src: ss[r.Intn(len(ss))], Flush: flush()}
			if j > 0 {
				k := r.Intn(j)
				switch r.Intn(7) {
				case 0:
					it.Derive = fmt.Sprintf("same:%d", k)
				case 1:
					it.Derive = fmt.Sprintf("prefix:%d:%d", k, r.Intn(6*leaf+1))
				case 2:
					it.Derive = fmt.Sprintf("lastbyte:%d", k)
				case 3:
					it.Derive = fmt.Sprintf("pluszero:%d", k)
				case 4:
					it.Derive = fmt.Sprintf("shareleaves:%d:%d", k, 1+r.Intn(5))
				}
			}
			items = append(items, it)
		}
		add("history", params{Leaf: leaf, Items: items, NoCRC: r.Intn(4) == 0, PreSeed: r.Intn(4) == 0})
	}
	return cs
}

var (
	globalMu   sync.Mutex
	globalKeys = map[string]string{} // leaf|key -> content digest, over the whole process
)

func digest(b []byte) string { h := sha256.Sum256(b); return hex.EncodeToString(h[:8]) }

func run02(c drv.Case, res *drv.Result) {
	var p params
	drv.Params(c, &p)
	cafsh.InstallWriteProgressMonitor()
	if p.Trials > 0 {
		runFault02(p, res)
		return
	}
	w := memstore.NewWorld(memstore.Config{NoCRC: p.NoCRC})
	blob := w.Store("blob")
	view := blob.For(memstore.NewActor("writer"))

	contents := make([][]byte, len(p.Items))
	materialize := func(i int) []byte {
		it := p.Items[i]
		var k, n int
		switch {
		case it.Derive == "":
			return gen.Bytes(p.Seed, it.Label, it.Len)
		case scan(it.Derive, "same:%d", &k):
			return contents[k]
		case scan(it.Derive, "prefix:%d:%d", &k, &n):
			if n > len(contents[k]) {
				n = len(contents[k])
			}
			return contents[k][:n]
		case scan(it.Derive, "lastbyte:%d", &k):
			b := append([]byte(nil), contents[k]...)
			if len(b) == 0 {
				return []byte{1}
			}
			b[len(b)-1] ^= 0x01
			return b
		case scan(it.Derive, "pluszero:%d", &k):
			return append(append([]byte(nil), contents[k]...), 0)
		case scan(it.Derive, "shareleaves:%d:%d", &k, &n):
			keep := n * p.Leaf
			if keep > len(contents[k]) {
				keep = len(contents[k]) / p.Leaf * p.Leaf
			}
			return append(append([]byte(nil), contents[k][:keep]...), gen.Bytes(p.Seed, it.Label, it.Len%(2*p.Leaf)+1)...)
		}
		panic("bad derive " + it.Derive)
	}

	if p.PreSeed {
		// learn the first leaf key in a scratch world, then plant an empty blob under it
		c0 := gen.Bytes(p.Seed, p.Items[0].Label, p.Items[0].Len)
		if len(c0) > 0 {
			sw := memstore.NewWorld(memstore.Config{})
			sfs, _ := cafsh.NewFs(sw.Store("blob").For(nil), uint32(p.Leaf))
			pr, err := cafsh.Put(sfs, c0, p.Leaf, cafsh.Source{Kind: "rd-fixed", Chunk: 13})
			if err == nil && len(pr.Keys) >= cafs.KeySize {
				blob.RawPut(hex.EncodeToString(pr.Keys[:cafs.KeySize]), nil)
				res.Stat("preseeded_empty_blobs", 1)
			}
		}
	}

	keyOf := map[string]string{} // content digest -> key (this case)
	for i, it := range p.Items {
		contents[i] = materialize(i)
		content := contents[i]
		d := digest(content) + fmt.Sprint(len(content))
		fs, err := cafsh.NewFs(view, uint32(p.Leaf), cafs.ConcurrentFlushes(it.Flush))
		if err != nil {
			panic(err)
		}
		before := blob.Snapshot()
		seq0 := w.Seq()
		pr, err := cafsh.Put(fs, content, p.Leaf, it.Src)
		if err != nil {
			res.Violate("put-error", cafsh.LenClass(len(content), p.Leaf), "Put #%d (%d bytes, leaf %d, %+v) failed: %v", i, len(content), p.Leaf, it.Src, err)
			return
		}
		res.Stat("puts", 1)
		key := pr.Key.String()
		lc := cafsh.LenClass(len(content), p.Leaf)

		// determinism and duplicate reporting
		prev, dup := keyOf[d]
		if dup {
			res.Stat("duplicate_puts", 1)
			if prev != key {
				res.Violate("key-not-deterministic", lc, "the same %d bytes got key %s… and then %s… (source %+v, flush %d)", len(content), prev[:16], key[:16], it.Src, it.Flush)
			}
			if !pr.Found {
				res.Violate("duplicate-not-reported", lc, "second Put of the same %d bytes returned Found=false", len(content))
			}
		} else {
			if pr.Found {
				res.Violate("fresh-content-reported-duplicate", lc, "first Put of a content (%d bytes) returned Found=true", len(content))
			}
			keyOf[d] = key
		}
		globalMu.Lock()
		gk := fmt.Sprintf("%d|%s", p.Leaf, key)
		if od, ok := globalKeys[gk]; ok && od != d {
			res.Violate("key-collision", lc, "two different contents got key %s… at leaf %d", key[:16], p.Leaf)
		}
		globalKeys[gk] = d
		globalMu.Unlock()

		// existing objects untouched (bytes), no overwrite of a non-empty blob
		after := blob.Snapshot()
		for k, ob := range before {
			nb, ok := after[k]
			if !ok {
				res.Violate("existing-object-removed", lc, "Put #%d removed pre-existing blob %s…", i, k[:16])
			} else if !bytes.Equal(ob, nb) && len(ob) > 0 {
				res.Violate("existing-object-changed", lc, "Put #%d changed the bytes of pre-existing blob %s… (%d -> %d bytes)", i, k[:16], len(ob), len(nb))
			}
		}
		for _, e := range w.Log(seq0) {
			var old int
			if e.Landed && scan(e.Arg, "overwrite:%d", &old) && old > 0 {
				res.Violate("overwrote-non-empty-blob", lc, "Put #%d overwrote existing non-empty blob %s… (%d bytes)", i, e.Key[:16], old)
			}
		}
		// layout: root blob = leaf keys || root key; leaf blobs = leaves of the content
		rb, ok := after[key]
		if !ok || !bytes.Equal(rb, append(append([]byte(nil), pr.Keys...), pr.Key[:]...)) {
			res.Violate("root-blob-layout", lc, "root blob of %s… is not leaf keys followed by the root key (present=%v, %d bytes)", key[:16], ok, len(rb))
		}
		nl := (len(content) + p.Leaf - 1) / p.Leaf
		if len(pr.Keys) != nl*cafs.KeySize {
			res.Violate("leaf-count", lc, "%d leaf keys for %d bytes at leaf %d", len(pr.Keys)/cafs.KeySize, len(content), p.Leaf)
		} else {
			for j := 0; j < nl; j++ {
				lk := hex.EncodeToString(pr.Keys[j*cafs.KeySize : (j+1)*cafs.KeySize])
				end := (j + 1) * p.Leaf
				if end > len(content) {
					end = len(content)
				}
				if lb, ok := after[lk]; !ok || !bytes.Equal(lb, content[j*p.Leaf:end]) {
					res.Violate("leaf-blob-content", lc, "leaf %d blob %s… does not hold the content's bytes [%d,%d) (present=%v, %d bytes)", j, lk[:16], j*p.Leaf, end, ok, len(lb))
				}
			}
		}
		// offline request: only for contents the Python side can regenerate from (seed, label, len)
		if it.Derive == "" && (len(content) <= 2*MiB || i == 0) {
			res.Offline = append(res.Offline, map[string]interface{}{"seed": p.Seed, "label": it.Label, "len": len(content), "leaf": p.Leaf,
				"key": key, "leaf_keys": hex.EncodeToString(pr.Keys), "source": it.Src.Kind, "class": lc})
			res.Stat("keys_sent_to_python_oracle", 1)
		}
		res.Seen("length_class", lc)
		res.Seen("leaf_size", fmt.Sprint(p.Leaf))
		res.Seen("flush_concurrency", fmt.Sprint(it.Flush))
	}
	var ks []string
	for _, it := range p.Items {
		ks = append(ks, fmt.Sprintf("%d/%s/%s", it.Len, it.Src.Kind, it.Derive))
	}
	sort.Strings(ks)
	res.Canon = fmt.Sprintf("leaf=%d %v crc=%v pre=%v", p.Leaf, ks, !p.NoCRC, p.PreSeed)
	res.Nontrivial = true
	res.Sample = map[string]interface{}{"leaf": p.Leaf, "items": p.Items, "blobs_in_store": len(blob.RawKeys())}
}

// runFault02: the write of one leaf blob fails while the other leaves are being flushed in parallel. Whatever the
// interleaving of the flushers, Put either fails or returns the key of the WHOLE content with every blob in place
// (never the key of the leaves that happened to be written).
func runFault02(p params, res *drv.Result) {
	it := p.Items[0]
	content := gen.Bytes(p.Seed, it.Label, it.Len)
	lc := cafsh.LenClass(len(content), p.Leaf)
	sw := memstore.NewWorld(memstore.Config{})
	sfs, err := cafsh.NewFs(sw.Store("blob").For(nil), uint32(p.Leaf))
	if err != nil {
		panic(err)
	}
	ref, err := cafsh.Put(sfs, content, p.Leaf, cafsh.Source{Kind: "single"})
	if err != nil {
		res.Violate("put-error", lc, "fault-free Put of %d bytes at leaf %d failed: %v", len(content), p.Leaf, err)
		return
	}
	nl := len(ref.Keys) / cafs.KeySize
	fl := p.FaultLeaf
	if fl < 0 || fl >= nl {
		fl = nl - 1
	}
	victim := hex.EncodeToString(ref.Keys[fl*cafs.KeySize : (fl+1)*cafs.KeySize])
	jr := gen.Rand(p.Seed, "jitter")
	var jmu sync.Mutex
	for trial := 0; trial < p.Trials; trial++ {
		w := memstore.NewWorld(memstore.Config{NoCRC: p.NoCRC})
		blob := w.Store("blob")
		a := memstore.NewActor("writer")
		a.SetFault(func(c memstore.Call) error {
			if c.Key == victim && (c.Op == "put" || c.Op == "putx") {
				return fmt.Errorf("injected: write of leaf %d refused", fl)
			}
			return nil
		})
		if p.Jitter > 0 {
			a.SetDelay(func() time.Duration {
				jmu.Lock()
				defer jmu.Unlock()
				return time.Duration(jr.Intn(p.Jitter+1)) * time.Microsecond
			})
		}
		fs, err := cafsh.NewFs(blob.For(a), uint32(p.Leaf), cafs.ConcurrentFlushes(it.Flush))
		if err != nil {
			panic(err)
		}
		pr, err := cafsh.Put(fs, content, p.Leaf, it.Src)
		res.Stat("puts_with_a_failing_leaf_write", 1)
		if a.FaultsInjected() == 0 {
			res.Stat("trials_where_the_fault_never_fired", 1)
		}
		if err != nil {
			res.Stat("puts_reporting_the_failure", 1)
			continue
		}
		after := blob.Snapshot()
		switch {
		case pr.Key.String() != ref.Key.String():
			res.Violate("key-of-partial-content", lc, "trial %d: the write of leaf %d of %d failed (flush concurrency %d), yet Put of %d bytes succeeded with key %s…, the content's key is %s… (%d leaf keys returned, %d expected)",
				trial, fl, nl, it.Flush, len(content), pr.Key.String()[:16], ref.Key.String()[:16], len(pr.Keys)/cafs.KeySize, nl)
			return
		case after[victim] == nil && a.FaultsInjected() > 0:
			res.Violate("put-succeeded-without-its-leaf", lc, "trial %d: the write of leaf %d of %d failed, yet Put succeeded and the leaf blob is not in the store", trial, fl, nl)
			return
		}
		res.Stat("puts_succeeding_with_the_full_key", 1)
	}
	res.Seen("length_class", lc)
	res.Seen("leaf_size", fmt.Sprint(p.Leaf))
	res.Seen("flush_concurrency", fmt.Sprint(it.Flush))
	res.Canon = fmt.Sprintf("fault leaf=%d len=%d fl=%d flush=%d src=%s jitter=%d", p.Leaf, it.Len, p.FaultLeaf, it.Flush, it.Src.Kind, p.Jitter)
	res.Nontrivial = true
	res.Sample = map[string]interface{}{"leaf": p.Leaf, "len": it.Len, "failing_leaf": fl, "leaves": nl, "trials": p.Trials, "flush": it.Flush}
}

func scan(s, format string, a ...interface{}) bool {
	n, err := fmt.Sscanf(s, format, a...)
	return err == nil && n == len(a)
}

func TestC02(t *testing.T) {
	drv.Main(t, drv.Driver{ID: "C02", Gen: gen02, Run: run02, CaseTimeout: 15 * time.Minute})
}
