package c03

import (
	"bytes"
	"context"
	"encoding/hex"
	"fmt"
	"io"
	"math/rand"
	"os"
	"runtime/debug"
	"strings"
	"testing"
	"time"

	"github.com/oneconcern/datamon/pkg/cafs"

	"verifharness/cafsh"
	"verifharness/coreh"
	"verifharness/drv"
	"verifharness/gen"
	"verifharness/memstore"
)

// C03 — reads never return corrupted content as if it were valid.
//
// Oracle: for every read on a damaged object the outcome is either an error, or exactly the originally
// stored bytes for the requested range; never different bytes, never a short success. A bundle download
// (core.Publish into a local directory) must not return success while a destination file differs from
// (or lacks) the stored content.

type corruption struct {
	Target string `json:"target"` // root | leaf
	Leaf   int    `json:"leaf,omitempty"`
	Kind   string `json:"kind"`          // flip | truncate | extend1 | extendleaf | delete | empty | same-object-leaf | other-object-leaf | other-object-root | swap | zero-fill
	Pos    int    `json:"pos,omitempty"` // bit position (flip), length (truncate), other leaf index (same-object-leaf, swap)
}

type params struct {
	Leaf     int          `json:"leaf_size"`
	Len      int          `json:"len"`
	Seed     int64        `json:"seed"`
	C        *corruption  `json:"corruption,omitempty"`
	Block    string       `json:"block,omitempty"` // all-bits:root | all-bits:leaf:<i> | all-truncations:root | all-truncations:leaf:<i>
	Download bool         `json:"download"`
	Src      cafsh.Source `json:"src"`
}

func (c corruption) String() string {
	if c.Target == "root" {
		return fmt.Sprintf("root/%s/%d", c.Kind, c.Pos)
	}
	return fmt.Sprintf("leaf%d/%s/%d", c.Leaf, c.Kind, c.Pos)
}

func gen03(seed int64, tier string) []drv.Case {
	r := gen.Rand(seed, "c03")
	var cs []drv.Case
	add := func(class string, p params) {
		p.Seed = r.Int63()
		p.Src = cafsh.Source{Kind: "rd-fixed", Chunk: 1000}
		cs = append(cs, drv.Case{ID: fmt.Sprintf("%s-%d", class, len(cs)), Class: class, Params: drv.MustJSON(p)})
	}
	shapes := func(leaf int) []int {
		var ls []int
		for k := 1; k <= 6; k++ {
			ls = append(ls, k*leaf, (k-1)*leaf+1+r.Intn(leaf-1))
		}
		return ls
	}
	rounds := 1
	if tier == "thorough" {
		rounds = 10
	}
	for round := 0; round < rounds; round++ {
		for _, leaf := range []int{64, 4096} {
			for _, l := range shapes(leaf) {
				n := (l + leaf - 1) / leaf
				if tier != "thorough" && leaf == 4096 && n != 1 && n != 3 && n != 6 {
					continue
				}
				lastLen := l - (n-1)*leaf
				for _, tgt := range []string{"root", "leaf"} {
					li := 0
					blobLen := (n + 1) * 64
					if tgt == "leaf" {
						li = r.Intn(n)
						blobLen = leaf
						if li == n-1 {
							blobLen = lastLen
						}
					}
					var cors []corruption
					for _, pos := range []int{0, blobLen*8 - 1, r.Intn(blobLen * 8), r.Intn(blobLen * 8), r.Intn(blobLen * 8)} {
						cors = append(cors, corruption{Target: tgt, Leaf: li, Kind: "flip", Pos: pos})
					}
					for _, tl := range []int{1, blobLen - 1, r.Intn(blobLen), blobLen / 64 / 2 * 64} {
						if tl > 0 && tl < blobLen {
							cors = append(cors, corruption{Target: tgt, Leaf: li, Kind: "truncate", Pos: tl})
						}
					}
					for _, k := range []string{"extend1", "extendleaf", "delete", "empty", "zero-fill"} {
						cors = append(cors, corruption{Target: tgt, Leaf: li, Kind: k})
					}
					if tgt == "leaf" {
						cors = append(cors, corruption{Target: tgt, Leaf: li, Kind: "other-object-leaf"})
						if n > 1 {
							o := (li + 1 + r.Intn(n-1)) % n
							cors = append(cors, corruption{Target: tgt, Leaf: li, Kind: "same-object-leaf", Pos: o}, corruption{Target: tgt, Leaf: li, Kind: "swap", Pos: o})
						}
					} else {
						cors = append(cors, corruption{Target: tgt, Kind: "other-object-root"})
					}
					for i, c := range cors {
						c := c
						add(fmt.Sprintf("leaf%d-%s-%s", leaf, tgt, c.Kind), params{Leaf: leaf, Len: l, C: &c, Download: tier == "thorough" || (i+n)%3 == 0})
					}
				}
			}
		}
	}
	// exhaustive blocks
	if tier == "thorough" {
		for _, l := range []int{6*64 - 10, 40} {
			n := (l + 63) / 64
			add("exhaustive-bits-root", params{Leaf: 64, Len: l, Block: "all-bits:root"})
			add("exhaustive-truncations-root", params{Leaf: 64, Len: l, Block: "all-truncations:root"})
			for i := 0; i < n; i++ {
				add("exhaustive-bits-leaf", params{Leaf: 64, Len: l, Block: fmt.Sprintf("all-bits:leaf:%d", i)})
				add("exhaustive-truncations-leaf", params{Leaf: 64, Len: l, Block: fmt.Sprintf("all-truncations:leaf:%d", i)})
			}
		}
	} else {
		add("exhaustive-bits-leaf", params{Leaf: 64, Len: 40, Block: "all-bits:leaf:0"})
		add("exhaustive-truncations-root", params{Leaf: 64, Len: 100, Block: "all-truncations:root"})
	}
	return cs
}

type world struct {
	p       params
	env     *coreh.Env
	tree    coreh.Tree
	content []byte
	key     cafs.Key
	leafKs  []string
	other   cafs.Key // another (valid) object in the same store
	otherLs []string
	bundle  string
	orig    map[string][]byte // pristine blob store
}

func setup(p params) (*world, error) {
	w := &world{p: p, env: coreh.NewEnv(memstore.Config{ChunkedReader: []int{0, 0, 0, 7}[p.Seed%4], EOFWithData: (p.Seed/4)%3 == 1})}
	w.content = gen.Bytes(p.Seed, "object", p.Len)
	w.tree = coreh.Tree{"dir/object.bin": w.content, "other.bin": gen.Bytes(p.Seed, "other", p.Len+p.Leaf/2), "small.txt": gen.Bytes(p.Seed, "small", 10)}
	if err := w.env.CreateRepo(nil, "r"); err != nil {
		return nil, err
	}
	src := w.env.MemConsumable("src", w.tree)
	id, err := w.env.Upload(nil, "r", src.For(nil), coreh.UploadOpts{Leaf: uint32(p.Leaf), Concurrency: 4})
	if err != nil {
		return nil, fmt.Errorf("upload: %w", err)
	}
	w.bundle = id
	_, entries, err := w.env.Entries(nil, "r", id)
	if err != nil {
		return nil, err
	}
	for _, e := range entries {
		k, err := cafs.KeyFromString(e.Hash)
		if err != nil {
			return nil, err
		}
		ls, err := cafs.LeavesForHash(w.env.Blob.For(nil), k, uint32(p.Leaf), "")
		if err != nil {
			return nil, err
		}
		var lss []string
		for _, l := range ls {
			lss = append(lss, l.String())
		}
		switch e.NameWithPath {
		case "dir/object.bin":
			w.key, w.leafKs = k, lss
		case "other.bin":
			w.other, w.otherLs = k, lss
		}
	}
	w.orig = w.env.Blob.Snapshot()
	return w, nil
}

// apply damages the blob store; returns false when the stored bytes did not really change.
func (w *world) apply(c corruption) bool {
	blobKey := w.key.String()
	if c.Target == "leaf" {
		blobKey = w.leafKs[c.Leaf]
	}
	old := w.orig[blobKey]
	var nb []byte
	switch c.Kind {
	case "flip":
		nb = append([]byte(nil), old...)
		nb[c.Pos/8] ^= 1 << uint(c.Pos%8)
	case "truncate":
		nb = append([]byte(nil), old[:c.Pos]...)
	case "extend1":
		nb = append(append([]byte(nil), old...), 0x5a)
	case "extendleaf":
		nb = append(append([]byte(nil), old...), gen.Bytes(w.p.Seed, "ext", 64)...)
	case "delete":
		w.env.Blob.RawDelete(blobKey)
		return true
	case "empty":
		nb = []byte{}
	case "zero-fill":
		nb = make([]byte, len(old))
	case "same-object-leaf":
		nb = w.orig[w.leafKs[c.Pos]]
	case "other-object-leaf":
		nb = w.orig[w.otherLs[c.Leaf%len(w.otherLs)]]
	case "other-object-root":
		nb = w.orig[w.other.String()]
	case "swap":
		o := w.leafKs[c.Pos]
		if bytes.Equal(w.orig[o], old) {
			return false
		}
		w.env.Blob.RawPut(blobKey, w.orig[o])
		w.env.Blob.RawPut(o, old)
		return true
	}
	if bytes.Equal(nb, old) {
		return false
	}
	w.env.Blob.RawPut(blobKey, nb)
	return true
}

func (w *world) restore() {
	for _, k := range w.env.Blob.RawKeys() {
		if _, ok := w.orig[k]; !ok {
			w.env.Blob.RawDelete(k)
		}
	}
	for k, v := range w.orig {
		w.env.Blob.RawPut(k, v)
	}
}

type outcome struct {
	data []byte
	err  error
}

// observe runs every read style on the damaged object and judges it.
func (w *world) observe(c corruption, res *drv.Result, download bool, r *rand.Rand) {
	leaf := w.p.Leaf
	content := w.content
	ctx := context.Background()
	cname := c.Target + "/" + c.Kind
	judge := func(style string, off int, n int, o outcome) {
		res.Stat("observations", 1)
		if o.err != nil {
			res.Stat("reads_refused_with_error", 1)
			return
		}
		want := content[min(off, len(content)):min(off+n, len(content))]
		if bytes.Equal(o.data, want) {
			res.Stat("reads_returning_exact_bytes", 1)
			return
		}
		kind := "corrupt-bytes-returned"
		if len(o.data) < len(want) && bytes.Equal(o.data, want[:len(o.data)]) {
			kind = "short-success"
		}
		res.Violate(kind, style+"|"+cname, "%s after corruption %s of a %d-byte object (leaf %d): no error, got %d bytes, expected %d (%s)", style, c, len(content), leaf, len(o.data), len(want), firstDiff(o.data, want))
	}
	guard := func(style string, f func()) {
		defer func() {
			if x := recover(); x != nil {
				st := string(debug.Stack())
				frame := ""
				for _, l := range strings.Split(st, "\n") {
					l = strings.TrimSpace(l)
					if strings.HasPrefix(l, "github.com/oneconcern/datamon/") {
						frame = strings.TrimPrefix(l[:strings.LastIndex(l, "(")], "github.com/oneconcern/datamon/")
						break
					}
				}
				res.Violate("panic", style+"|"+cname+"|"+frame, "%s after corruption %s panicked: %v", style, c, x)
			}
		}()
		f()
	}
	newFs := func() cafs.Fs {
		opts := []cafs.Option{cafs.Prefetch(r.Intn(3))}
		if r.Intn(24) != 0 {
			// a small cache recycles its (1 MiB) buffers; the default cache allocates one per leaf read and a 12 MB free
			// list per instance, which readers with prefetch never give back (see DESIGN §9, observations)
			opts = append(opts, cafs.CacheSize((1+r.Intn(3))*leaf))
		}
		fs, err := cafsh.NewFs(w.env.Blob.For(nil), uint32(leaf), opts...)
		if err != nil {
			panic(err)
		}
		return fs
	}
	// sequential Read, three buffer sizes
	for _, bs := range []int{7, leaf, 2*leaf + 1} {
		bs := bs
		guard("Read", func() {
			rd, err := newFs().Get(ctx, w.key)
			if err != nil {
				judge("Read", 0, len(content), outcome{err: err})
				return
			}
			defer rd.Close()
			var got []byte
			var rerr error
			for steps := 0; steps < 10*len(content)+100; steps++ {
				buf := make([]byte, bs)
				m, e := rd.Read(buf)
				got = append(got, buf[:m]...)
				if e == io.EOF {
					break
				}
				if e != nil {
					rerr = e
					break
				}
			}
			judge("Read", 0, len(content), outcome{got, rerr})
		})
	}
	// ReadAt: full scan, targeted at the damaged leaf, elsewhere
	type q struct{ off, n int }
	qs := []q{{0, len(content)}, {0, len(content) + leaf}}
	if c.Target == "leaf" {
		lo := c.Leaf * leaf
		qs = append(qs, q{lo, leaf}, q{lo + 1, 3}, q{max(lo-2, 0), 5})
		if c.Leaf > 0 {
			qs = append(qs, q{0, lo})
		}
		if (c.Leaf+1)*leaf < len(content) {
			qs = append(qs, q{(c.Leaf + 1) * leaf, leaf})
		}
	}
	for i := 0; i < 4; i++ {
		qs = append(qs, q{r.Intn(len(content)), 1 + r.Intn(2*leaf)})
	}
	for _, x := range qs {
		x := x
		guard("ReadAt", func() {
			ra, err := newFs().GetAt(ctx, w.key)
			if err != nil {
				judge("ReadAt", x.off, x.n, outcome{err: err})
				return
			}
			buf := make([]byte, x.n)
			m, e := ra.ReadAt(buf, int64(x.off))
			if e == io.EOF {
				e = nil
			}
			judge("ReadAt", x.off, x.n, outcome{buf[:m], e})
		})
	}
	// one long-lived file system instance (a streamed mount keeps one for its whole life): the same requests repeated,
	// then other read styles on the same instance — a leaf rejected once must not be served from a cache afterwards
	guard("reread-same-fs", func() {
		shared := newFs()
		rqs := append([]q{}, qs[:min(len(qs), 5)]...)
		for pass := 0; pass < 3; pass++ {
			for _, x := range rqs {
				ra, err := shared.GetAt(ctx, w.key)
				if err != nil {
					judge("reread-same-fs:ReadAt", x.off, x.n, outcome{err: err})
					continue
				}
				buf := make([]byte, x.n)
				m, e := ra.ReadAt(buf, int64(x.off))
				if e == io.EOF {
					e = nil
				}
				judge(fmt.Sprintf("reread-same-fs:ReadAt-pass%d", min(pass, 1)+1), x.off, x.n, outcome{buf[:m], e})
			}
		}
		rd, err := shared.Get(ctx, w.key)
		if err != nil {
			judge("reread-same-fs:Read", 0, len(content), outcome{err: err})
			return
		}
		defer rd.Close()
		got, rerr := io.ReadAll(rd)
		judge("reread-same-fs:Read", 0, len(content), outcome{got, rerr})
	})
	// WriteTo
	guard("WriteTo-plain", func() {
		rd, err := newFs().Get(ctx, w.key)
		if err != nil {
			judge("WriteTo-plain", 0, len(content), outcome{err: err})
			return
		}
		defer rd.Close()
		pw := &cafsh.PlainWriter{}
		_, e := rd.(io.WriterTo).WriteTo(pw)
		judge("WriteTo-plain", 0, len(content), outcome{pw.B.Bytes(), e})
	})
	guard("WriteTo-writerat", func() {
		rd, err := newFs().Get(ctx, w.key)
		if err != nil {
			judge("WriteTo-writerat", 0, len(content), outcome{err: err})
			return
		}
		defer rd.Close()
		aw := &cafsh.AtWriter{}
		_, e := rd.(io.WriterTo).WriteTo(aw)
		judge("WriteTo-writerat", 0, len(content), outcome{aw.Data, e})
	})
	// bundle download into a local directory
	if download {
		for _, conc := range []int{1, 10} {
			conc := conc
			guard("download", func() {
				dir, err := os.MkdirTemp(os.Getenv("VERIF_SCRATCH"), "c03-dl-")
				if err != nil {
					panic(err)
				}
				defer os.RemoveAll(dir)
				err = w.env.Publish(nil, "r", w.bundle, coreh.LocalFS(dir), conc)
				res.Stat("downloads", 1)
				if err != nil {
					res.Stat("downloads_refused_with_error", 1)
					return
				}
				got, rerr := coreh.ReadDir(dir)
				if rerr != nil {
					panic(rerr)
				}
				if d := coreh.DiffTrees(coreh.WithoutMeta(got), w.tree); d != "" {
					res.Violate("download-wrote-altered-bytes", fmt.Sprintf("%s|concurrency=%d", cname, conc),
						"core.Publish (download concurrency %d) returned success after corruption %s, but the destination differs from the stored content: %s", conc, c, d)
				} else {
					res.Stat("downloads_exact", 1)
				}
			})
		}
	}
}

func firstDiff(got, want []byte) string {
	n := min(len(got), len(want))
	for i := 0; i < n; i++ {
		if got[i] != want[i] {
			return fmt.Sprintf("first difference at byte %d", i)
		}
	}
	return fmt.Sprintf("common prefix %d", n)
}

func min(a, b int) int {
	if a < b {
		return a
	}
	return b
}
func max(a, b int) int {
	if a > b {
		return a
	}
	return b
}

func run03(c drv.Case, res *drv.Result) {
	var p params
	drv.Params(c, &p)
	cafsh.InstallWriteProgressMonitor()
	w, err := setup(p)
	if err != nil {
		res.Skipped = "set-up failed (not a C03 matter): " + err.Error()
		res.Violate("setup", "upload-failed", "could not build the intact object: %v", err)
		return
	}
	r := rand.New(rand.NewSource(p.Seed))
	if p.Block == "" {
		if !w.apply(*p.C) {
			res.Skipped = "corruption stores identical bytes"
			return
		}
		w.observe(*p.C, res, p.Download, r)
		res.Nontrivial = true
		res.Canon = fmt.Sprintf("leaf=%d len=%d %s", p.Leaf, p.Len, p.C)
		res.Seen("corruption_kind", p.C.Target+"/"+p.C.Kind)
		res.Sample = map[string]interface{}{"leaf_size": p.Leaf, "object_len": p.Len, "corruption": p.C, "object_key": hex.EncodeToString(w.key[:8]) + "…", "download": p.Download}
		return
	}
	// exhaustive block over one blob
	var kind, tgt string
	li := 0
	if n, _ := fmt.Sscanf(strings.Replace(p.Block, ":", " ", -1), "%s leaf %d", &kind, &li); n == 2 {
		tgt = "leaf"
	} else {
		fmt.Sscanf(strings.Replace(p.Block, ":", " ", -1), "%s root", &kind)
		tgt = "root"
	}
	blobKey := w.key.String()
	if tgt == "leaf" {
		blobKey = w.leafKs[li]
	}
	blobLen := len(w.orig[blobKey])
	var count int64
	var list []corruption
	if kind == "all-bits" {
		for pos := 0; pos < blobLen*8; pos++ {
			list = append(list, corruption{Target: tgt, Leaf: li, Kind: "flip", Pos: pos})
		}
	} else {
		for l := 0; l < blobLen; l++ {
			list = append(list, corruption{Target: tgt, Leaf: li, Kind: "truncate", Pos: l})
		}
	}
	for i, cor := range list {
		if !w.apply(cor) {
			continue
		}
		before := len(res.Violations)
		w.observe(cor, res, i%16 == 0, r)
		if len(res.Violations) > before+3 {
			res.Violations = res.Violations[:before+3]
		}
		count++
		w.restore()
		if len(res.Violations) > 40 {
			break
		}
	}
	if len(res.Violations) == 0 {
		res.Stat("exhaustive_complete", 1)
	}
	res.Evals, res.Distinct = count, count
	res.Canon = c.ID
	res.Sample = map[string]interface{}{"block": p.Block, "blob_len": blobLen, "corruptions_enumerated": count, "object_len": p.Len}
}

func TestC03(t *testing.T) {
	drv.Main(t, drv.Driver{ID: "C03", Gen: gen03, Run: run03, CaseTimeout: 15 * time.Minute})
}
