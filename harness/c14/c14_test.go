package c14

import (
	"fmt"
	"math/rand"
	"os"
	"sort"
	"sync"
	"testing"
	"time"

	context2 "github.com/oneconcern/datamon/pkg/context"
	"github.com/oneconcern/datamon/pkg/core"

	"verifharness/cafsh"
	"verifharness/coreh"
	"verifharness/drv"
	"verifharness/gen"
	"verifharness/memstore"
)

// C14 — purging removes exactly the unreferenced old blobs, one job at a time.

type step struct {
	Op    string            `json:"op"` // upload | delete-repo | squash | delete-files | build | dry-run | delete-unused
	Ctx   string            `json:"ctx,omitempty"`
	Repo  string            `json:"repo,omitempty"`
	Files map[string]string `json:"files,omitempty"` // path -> content label
	Chunk uint64            `json:"chunk,omitempty"`
	Fast  bool              `json:"fast_uploader,omitempty"`
	// Resume: the build completes the existing index (--resume) instead of starting a new one
	Resume bool `json:"resume,omitempty"`
}

type params struct {
	Mode  string `json:"mode"` // history | lock
	Steps []step `json:"steps,omitempty"`
	Leaf  uint32 `json:"leaf"`
	K     int    `json:"k,omitempty"`
	Force bool   `json:"force,omitempty"`
	Seed  int64  `json:"seed"`
	// Orphans: that many unreferenced blobs are planted in the blob store before anything else (several listing
	// pages of 1024 for delete-unused)
	Orphans int `json:"planted_unreferenced_blobs,omitempty"`
}

func gen14(seed int64, tier string) []drv.Case {
	r := gen.Rand(seed, "c14")
	var cs []drv.Case
	n := 40
	if tier == "thorough" {
		n = 1000
	}
	for i := 0; i < n; i++ {
		leaf := uint32([]int{64, 4096}[r.Intn(2)])
		files := func() map[string]string {
			m := map[string]string{}
			for j := 0; j < 1+r.Intn(4); j++ {
				m[fmt.Sprintf("d%d/f%d", r.Intn(2), r.Intn(5))] = fmt.Sprintf("c%d", r.Intn(8))
			}
			return m
		}
		var st []step
		where := func() (string, string) {
			if r.Intn(4) == 0 {
				return "x", "r3"
			}
			return "main", []string{"r1", "r2"}[r.Intn(2)]
		}
		for j := 0; j < 2+r.Intn(5); j++ {
			c, rp := where()
			st = append(st, step{Op: "upload", Ctx: c, Repo: rp, Files: files()})
		}
		shrink := func() {
			switch r.Intn(3) {
			case 0:
				st = append(st, step{Op: "delete-repo", Ctx: "main", Repo: []string{"r1", "r2"}[r.Intn(2)]})
			case 1:
				st = append(st, step{Op: "squash", Ctx: "main", Repo: []string{"r1", "r2"}[r.Intn(2)]})
			default:
				st = append(st, step{Op: "delete-files", Ctx: "main", Repo: []string{"r1", "r2"}[r.Intn(2)]})
			}
		}
		for j := 0; j < r.Intn(3); j++ {
			shrink()
		}
		chunk := func() uint64 { return uint64([]int{1, 2, 3, 5, 7, 20, 1000}[r.Intn(7)]) }
		firstChunk := chunk()
		if i%3 == 2 {
			firstChunk = uint64(1 + r.Intn(2)) // many chunks: chunk-10 lists before chunk-2
		}
		st = append(st, step{Op: "build", Chunk: firstChunk, Fast: r.Intn(2) == 0})
		if i%3 == 1 { // the set of referenced keys shrinks, then the index is rebuilt
			shrink()
			if r.Intn(2) == 0 {
				c, rp := where()
				st = append(st, step{Op: "upload", Ctx: c, Repo: rp, Files: files()})
			}
			st = append(st, step{Op: "build", Chunk: chunk(), Fast: r.Intn(2) == 0})
		}
		if i%3 == 2 { // more bundles arrive, the index is completed with --resume (chunk numbering continues)
			c, rp := where()
			st = append(st, step{Op: "upload", Ctx: c, Repo: rp, Files: files()})
			st = append(st, step{Op: "build", Chunk: firstChunk, Fast: r.Intn(2) == 0, Resume: true})
		}
		if i%4 == 1 {
			// a bundle uploaded after the index was built, re-using contents of the pool (possibly blobs that no bundle
			// references any more): delete-unused must keep what it needs ("keeping all others")
			c, rp := where()
			st = append(st, step{Op: "upload", Ctx: c, Repo: rp, Files: files()})
		}
		if r.Intn(2) == 0 {
			st = append(st, step{Op: "dry-run"})
		}
		st = append(st, step{Op: "delete-unused"})
		cls := "history"
		if i%3 == 1 {
			cls = "history-with-rebuild"
		}
		if i%3 == 2 {
			cls = "history-with-resumed-build"
		}
		pp := params{Mode: "history", Steps: st, Leaf: leaf, Seed: r.Int63()}
		if i%10 == 4 {
			pp.Orphans = 1100 + r.Intn(2500)
			cls += "+thousands-of-blobs"
		}
		cs = append(cs, drv.Case{ID: fmt.Sprintf("%s-%d", cls, i), Class: cls, Params: drv.MustJSON(pp)})
	}
	nl := 12
	if tier == "thorough" {
		nl = 200
	}
	for i := 0; i < nl; i++ {
		cs = append(cs, drv.Case{ID: fmt.Sprintf("lock-%d", i), Class: "lock", Params: drv.MustJSON(params{Mode: "lock", K: 2 + r.Intn(15), Force: i%3 == 2, Seed: r.Int63()})})
	}
	return cs
}

type ctxs struct {
	main  *coreh.Env
	x     *coreh.Env
	extra []context2.Stores
}

func envOf(c *ctxs, name string) *coreh.Env {
	if name == "x" {
		return c.x
	}
	return c.main
}

func needed(c *ctxs) (map[string]bool, []coreh.BundleRef, error) {
	keys := map[string]bool{}
	var refs []coreh.BundleRef
	for _, cn := range []string{"main", "x"} {
		e := envOf(c, cn)
		bs, err := coreh.VisibleBundles(cn, e.Stores(nil))
		if err != nil {
			return nil, nil, err
		}
		for _, b := range bs {
			ks, err := e.KeysOfBundle(b.Repo, b.ID)
			if err != nil {
				return nil, nil, err
			}
			for k := range ks {
				keys[k] = true
			}
			refs = append(refs, b)
		}
	}
	return keys, refs, nil
}

func run14(c drv.Case, res *drv.Result) {
	var p params
	drv.Params(c, &p)
	cafsh.InstallWriteProgressMonitor()
	res.Canon = string(c.Params)
	res.Nontrivial = true
	main := coreh.NewEnv(memstore.Config{})
	if p.Mode == "lock" {
		var wg sync.WaitGroup
		errs := make([]error, p.K)
		start := make(chan struct{})
		for g := 0; g < p.K; g++ {
			wg.Add(1)
			go func(g int) {
				defer wg.Done()
				a := memstore.NewActor(fmt.Sprint("job", g)).SetDelay(func() time.Duration { return time.Duration(rand.Intn(200)) * time.Microsecond })
				<-start
				errs[g] = core.PurgeLock(main.Stores(a), core.WithPurgeLogger(coreh.Nop), core.WithPurgeForce(p.Force))
			}(g)
		}
		close(start)
		wg.Wait()
		ok := 0
		for _, e := range errs {
			if e == nil {
				ok++
			}
		}
		res.Stat("lock_races", 1)
		if p.Force && ok != p.K {
			res.Violate("forced-lock-refused", "force", "%d of %d forced lock acquisitions succeeded", ok, p.K)
		}
		if !p.Force && ok != 1 {
			res.Violate("lock-holders", fmt.Sprint(min(ok, 2)), "%d concurrent purge jobs: %d acquired the lock", p.K, ok)
		}
		if err := core.PurgeLock(main.Stores(nil), core.WithPurgeLogger(coreh.Nop)); err == nil {
			res.Violate("lock-holders", "acquired-while-held", "the lock was acquired while another job holds it")
		}
		if err := core.PurgeUnlock(main.Stores(nil), core.WithPurgeLogger(coreh.Nop)); err != nil {
			res.Violate("unlock-failed", "unlock", "PurgeUnlock: %v", err)
		}
		if err := core.PurgeLock(main.Stores(nil), core.WithPurgeLogger(coreh.Nop)); err != nil {
			res.Violate("lock-not-reacquirable", "after-unlock", "lock after unlock: %v", err)
		}
		res.Sample = map[string]interface{}{"jobs": p.K, "force": p.Force, "acquired": ok}
		return
	}
	cx := &ctxs{main: main, x: main.ExtraEnv("x")}
	cx.extra = []context2.Stores{main.ExtraStores(nil, "x")}
	must := func(err error) {
		if err != nil {
			panic(fmt.Sprintf("set-up failed: %v", err))
		}
	}
	must(main.CreateRepo(nil, "r1"))
	must(main.CreateRepo(nil, "r2"))
	must(cx.x.CreateRepo(nil, "r3"))
	for j := 0; j < p.Orphans; j++ {
		main.Blob.RawPut(fmt.Sprintf("%x", gen.Bytes(p.Seed, fmt.Sprint("orphan", j), 64)), []byte{byte(j)})
	}
	content := func(label string) []byte {
		var k int
		fmt.Sscanf(label, "c%d", &k)
		return gen.Bytes(p.Seed, label, (k%6)*int(p.Leaf)+1+(k*37)%int(p.Leaf))
	}
	nsrc := 0
	var trees = map[string]coreh.Tree{}
	var builds int
	var indexTime time.Time
	for si, s := range p.Steps {
		e := envOf(cx, s.Ctx)
		switch s.Op {
		case "upload":
			t := coreh.Tree{}
			for pth, l := range s.Files {
				t[pth] = content(l)
			}
			nsrc++
			if core.RepoExists(s.Repo, e.Stores(nil)) != nil {
				must(e.CreateRepo(nil, s.Repo))
			}
			id, err := e.Upload(nil, s.Repo, main.MemConsumable(fmt.Sprint("src", nsrc), t).For(nil), coreh.UploadOpts{Leaf: p.Leaf, Concurrency: 4})
			must(err)
			trees[s.Ctx+"/"+s.Repo+"/"+id] = t
		case "delete-repo":
			if core.RepoExists(s.Repo, e.Stores(nil)) == nil {
				must(core.DeleteRepo(s.Repo, e.Stores(nil)))
			}
		case "squash":
			if core.RepoExists(s.Repo, e.Stores(nil)) == nil {
				must(core.RepoSquash(e.Stores(nil), s.Repo))
			}
		case "delete-files":
			if core.RepoExists(s.Repo, e.Stores(nil)) == nil {
				must(core.DeleteEntriesFromRepo(s.Repo, e.Stores(nil), []string{"d0/f0", "d1/f1", "d0/f2"}))
				for k, t := range trees {
					if len(k) > len(s.Ctx+"/"+s.Repo) && k[:len(s.Ctx+"/"+s.Repo)+1] == s.Ctx+"/"+s.Repo+"/" {
						delete(t, "d0/f0")
						delete(t, "d1/f1")
						delete(t, "d0/f2")
					}
				}
			}
		case "build":
			want, _, err := needed(cx)
			must(err)
			kv := coreh.KVDir()
			bopts := coreh.PurgeOpts(kv, cx.extra, s.Chunk, s.Fast)
			if s.Resume {
				bopts = append(bopts, core.WithPurgeResumeIndex(true))
			}
			idx, err := core.PurgeBuildReverseIndex(main.Stores(memstore.NewActor("builder")), bopts...)
			os.RemoveAll(kv)
			builds++
			res.Stat("index_builds", 1)
			cls := fmt.Sprintf("build#%d", min(builds, 2))
			if s.Resume {
				cls += "-resumed"
				res.Stat("index_builds_resumed", 1)
			}
			if err != nil {
				res.Violate("build-failed", cls, "step %d: PurgeBuildReverseIndex (chunk size %d) failed: %v", si, s.Chunk, err)
				return
			}
			chunks, err := main.ParseIndex()
			if err != nil {
				res.Violate("index-unreadable", cls, "step %d: %v", si, err)
				return
			}
			got := map[string]int{}
			for _, ch := range chunks {
				if !ch.Time.Equal(chunks[0].Time) {
					res.Violate("index-chunks-with-different-times", cls, "step %d: chunk %d carries index time %s, chunk %d carries %s", si, ch.N, ch.Time, chunks[0].N, chunks[0].Time)
					return
				}
				for _, k := range ch.Keys {
					got[k]++
				}
			}
			var missing, extra, dup []string
			for k := range want {
				if got[k] == 0 {
					missing = append(missing, k[:10])
				}
			}
			for k, n := range got {
				if !want[k] {
					extra = append(extra, k[:10])
				}
				if n > 1 {
					dup = append(dup, k[:10])
				}
			}
			sort.Strings(missing)
			sort.Strings(extra)
			if len(missing) > 0 {
				res.Violate("index-misses-referenced-keys", cls, "step %d: the index (chunk size %d, %d chunks) lacks %d of the %d keys referenced by visible bundles: %v", si, s.Chunk, len(chunks), len(missing), len(want), clip(missing))
				return
			}
			if len(extra) > 0 {
				res.Violate("index-holds-unreferenced-keys", cls, "step %d: the index (chunk size %d, %d chunks) holds %d keys that no visible bundle references: %v", si, s.Chunk, len(chunks), len(extra), clip(extra))
				return
			}
			if len(dup) > 0 {
				res.Violate("index-duplicate-keys", cls, "step %d: %d keys are listed more than once in the index: %v", si, len(dup), clip(dup))
				return
			}
			if len(chunks) > 0 && !idx.IndexTime.Equal(chunks[0].Time) {
				res.Violate("index-time-mismatch", cls, "step %d: the build reports index time %s, chunks carry %s", si, idx.IndexTime, chunks[0].Time)
			}
			if len(chunks) > 0 {
				indexTime = chunks[0].Time
			}
			res.Stat("index_keys_checked", int64(len(got)))
			res.Seen("chunks_per_index", fmt.Sprint(len(chunks)))
		case "dry-run", "delete-unused":
			before := main.Blob.Snapshot()
			want, refs, err := needed(cx)
			must(err)
			kv := coreh.KVDir()
			opts := coreh.PurgeOpts(kv, nil, 0, false)
			if s.Op == "dry-run" {
				opts = append(opts, core.WithPurgeDryRun(true))
			}
			_, err = core.PurgeDeleteUnused(main.Stores(memstore.NewActor("deleter")), opts...)
			os.RemoveAll(kv)
			if err != nil {
				res.Violate("delete-unused-failed", s.Op, "step %d: PurgeDeleteUnused failed: %v", si, err)
				return
			}
			after := main.Blob.Snapshot()
			if s.Op == "dry-run" {
				if len(after) != len(before) {
					res.Violate("dry-run-deleted-blobs", "dry-run", "step %d: dry-run removed %d blobs", si, len(before)-len(after))
				}
				continue
			}
			res.Stat("delete_unused_runs", 1)
			var lost, kept []string
			for k := range before {
				_, still := after[k]
				upd, _ := main.Blob.Updated(k)
				newer := still && upd.After(indexTime)
				switch {
				case want[k] && !still:
					lost = append(lost, k[:10])
				case !want[k] && still && !newer:
					kept = append(kept, k[:10])
				}
			}
			sort.Strings(lost)
			sort.Strings(kept)
			cls := fmt.Sprintf("builds=%d", min(builds, 2))
			if len(lost) > 0 {
				res.Violate("referenced-blob-deleted", cls, "step %d: delete-unused removed %d blobs that visible bundles reference: %v", si, len(lost), clip(lost))
				return
			}
			if len(kept) > 0 {
				res.Violate("unreferenced-old-blob-kept", cls, "step %d: %d blobs older than the index that no visible bundle references survive delete-unused (of %d blobs): %v", si, len(kept), len(before), clip(kept))
				return
			}
			res.Stat("blobs_checked", int64(len(before)))
			res.Stat("blobs_deleted", int64(len(before)-len(after)))
			for _, b := range refs {
				e := envOf(cx, b.Ctx)
				dest := main.W.Store("dest-" + b.ID)
				if err := e.Publish(nil, b.Repo, b.ID, dest.For(nil), 4); err != nil {
					res.Violate("bundle-broken-after-purge", cls, "step %d: bundle %s/%s/%s no longer downloads: %v", si, b.Ctx, b.Repo, b.ID, err)
					return
				}
				if t, ok := trees[b.Ctx+"/"+b.Repo+"/"+b.ID]; ok {
					if d := coreh.DiffTrees(coreh.WithoutMeta(coreh.StoreTree(dest)), t); d != "" {
						res.Violate("bundle-content-after-purge", cls, "step %d: bundle %s/%s/%s: %s", si, b.Ctx, b.Repo, b.ID, d)
						return
					}
				}
				res.Stat("bundles_downloaded_after_purge", 1)
			}
		}
	}
	var ops []string
	for _, s := range p.Steps {
		ops = append(ops, s.Op)
	}
	res.Sample = map[string]interface{}{"leaf": p.Leaf, "ops": ops, "first_upload": p.Steps[0]}
}

func clip(xs []string) []string {
	if len(xs) > 6 {
		return xs[:6]
	}
	return xs
}

func min(a, b int) int {
	if a < b {
		return a
	}
	return b
}

func TestC14(t *testing.T) {
	drv.Main(t, drv.Driver{ID: "C14", Gen: gen14, Run: run14, CaseTimeout: 30 * time.Minute})
}
