package c04

import (
	"bytes"
	"context"
	"crypto/sha256"
	"fmt"
	"hash/fnv"
	"math/rand"
	"os"
	"sort"
	"strings"
	"testing"
	"time"

	"gopkg.in/yaml.v2"

	"github.com/oneconcern/datamon/pkg/core"
	"github.com/oneconcern/datamon/pkg/model"

	"verifharness/cafsh"
	"verifharness/coreh"
	"verifharness/drv"
	"verifharness/gen"
	"verifharness/memstore"
)

// C04 — bundle upload then download reproduces the uploaded tree.

type params struct {
	Tree     coreh.TreeSpec `json:"tree"`
	Leaf     uint32         `json:"leaf"`
	UpConc   int            `json:"upload_concurrency"`
	DownConc int            `json:"download_concurrency"`
	Mode     string         `json:"mode"`           // tree | keys
	Keys     []string       `json:"keys,omitempty"` // explicit key list
	SkipMiss bool           `json:"skip_missing"`
	PredKind string         `json:"predicate,omitempty"` // prefix:<p> | suffix:<s> | hashmod:<m>:<r>
	Seed     int64          `json:"seed"`
}

const MiB = 1 << 20

func gen04(seed int64, tier string) []drv.Case {
	r := gen.Rand(seed, "c04")
	var cs []drv.Case
	add := func(class string, p params) {
		p.Seed = r.Int63()
		cs = append(cs, drv.Case{ID: fmt.Sprintf("%s-%d", class, len(cs)), Class: class, Params: drv.MustJSON(p)})
	}
	upC := []int{1, 3, 4, 20}
	dnC := []int{1, 2, 3, 10}
	preds := func() string {
		switch r.Intn(3) {
		case 0:
			return "prefix:" + []string{"a", "d1/", "data", "x"}[r.Intn(4)]
		case 1:
			return "suffix:" + []string{"a", "0", "z", "1"}[r.Intn(4)]
		}
		m := 2 + r.Intn(4)
		return fmt.Sprintf("hashmod:%d:%d", m, r.Intn(m))
	}
	small := 24
	if tier == "thorough" {
		small = 420
	}
	for i := 0; i < small; i++ {
		leaf := []int{64, 64, 4096, 4096, 65, 100}[r.Intn(6)]
		n := []int{0, 1, 2, 5, 12, 37}[r.Intn(6)]
		ts := coreh.GenTree(r, r.Int63(), n, coreh.TreeOpt{Leaf: leaf, Decoys: r.Intn(2) == 0, DupRatio: 4})
		add(fmt.Sprintf("small-leaf%d", leaf), params{Tree: ts, Leaf: uint32(leaf), UpConc: upC[r.Intn(4)], DownConc: dnC[r.Intn(4)], Mode: "tree", PredKind: preds()})
	}
	bigs := []int{999, 1000, 1001}
	if tier == "thorough" {
		bigs = []int{999, 1000, 1001, 1999, 2000, 2001, 2500, 1001, 1000}
	}
	for _, n := range bigs {
		ts := coreh.GenTree(r, r.Int63(), n, coreh.TreeOpt{Tiny: true, Decoys: true, DupRatio: 10})
		add("index-boundary", params{Tree: ts, Leaf: 2 * MiB, UpConc: upC[r.Intn(4)], DownConc: dnC[r.Intn(4)], Mode: "tree", PredKind: preds()})
	}
	nl := 2
	if tier == "thorough" {
		nl = 16
	}
	for i := 0; i < nl; i++ {
		leaf := []int{2 * MiB, 5 * MiB, MiB, MiB + MiB/2}[i%4]
		ts := coreh.GenTree(r, r.Int63(), 3, coreh.TreeOpt{Leaf: leaf, DupRatio: 3})
		add(fmt.Sprintf("big-leaf%d", leaf), params{Tree: ts, Leaf: uint32(leaf), UpConc: upC[r.Intn(4)], DownConc: dnC[r.Intn(4)], Mode: "tree", PredKind: preds()})
	}
	nk := 16
	if tier == "thorough" {
		nk = 160
	}
	for i := 0; i < nk; i++ {
		leaf := []int{64, 4096}[r.Intn(2)]
		ts := coreh.GenTree(r, r.Int63(), 4+r.Intn(12), coreh.TreeOpt{Leaf: leaf, Decoys: r.Intn(2) == 0, DupRatio: 4})
		var keys []string
		for _, f := range ts.Files {
			if r.Intn(3) != 0 {
				keys = append(keys, f.Path)
			}
		}
		cls := "keys-plain"
		switch i % 4 {
		case 1:
			if len(keys) > 0 {
				k := keys[r.Intn(len(keys))]
				keys = append(keys, k)
				if r.Intn(2) == 0 {
					keys = append([]string{k}, keys...)
				}
			}
			cls = "keys-repeated"
		case 2:
			keys = append(keys, "no/such/file", "nope")
			cls = "keys-missing"
		case 3:
			keys = append(keys, "no/such/file")
			cls = "keys-missing-skip"
		}
		r.Shuffle(len(keys), func(a, b int) { keys[a], keys[b] = keys[b], keys[a] })
		if keys == nil {
			keys = []string{}
		}
		add(cls, params{Tree: ts, Leaf: uint32(leaf), UpConc: upC[r.Intn(4)], DownConc: dnC[r.Intn(4)], Mode: "keys", Keys: keys, SkipMiss: i%4 == 3})
	}
	return cs
}

func norm(p string) string {
	p = strings.TrimPrefix(p, "./")
	return strings.TrimPrefix(p, "/")
}

func predicate(kind string) func(string) bool {
	var a string
	var m, rr int
	switch {
	case strings.HasPrefix(kind, "prefix:"):
		a = kind[7:]
		return func(s string) bool { return strings.HasPrefix(norm(s), a) }
	case strings.HasPrefix(kind, "suffix:"):
		a = kind[7:]
		return func(s string) bool { return strings.HasSuffix(s, a) }
	}
	fmt.Sscanf(kind, "hashmod:%d:%d", &m, &rr)
	return func(s string) bool {
		h := fnv.New32a()
		h.Write([]byte(norm(s)))
		return int(h.Sum32()%uint32(m)) == rr
	}
}

func tmp(prefix string) string {
	d, err := os.MkdirTemp(os.Getenv("VERIF_SCRATCH"), prefix)
	if err != nil {
		panic(err)
	}
	return d
}

func run04(c drv.Case, res *drv.Result) {
	var p params
	drv.Params(c, &p)
	cafsh.InstallWriteProgressMonitor()
	env := coreh.NewEnv(memstore.Config{})
	if err := env.CreateRepo(nil, "repo"); err != nil {
		panic(err)
	}
	full := p.Tree.Tree()
	srcDir := tmp("c04-src-")
	defer os.RemoveAll(srcDir)
	if err := coreh.WriteDir(srcDir, full); err != nil {
		panic(err)
	}
	src := coreh.LocalFS(srcDir)
	res.Canon = fmt.Sprintf("%x", sha256.Sum256(c.Params))
	res.Seen("leaf_size", fmt.Sprint(p.Leaf))
	res.Seen("file_count", fmt.Sprint(len(p.Tree.Files)))
	res.Seen("upload_concurrency", fmt.Sprint(p.UpConc))
	res.Seen("download_concurrency", fmt.Sprint(p.DownConc))

	// the model: what must be in the bundle
	model0 := coreh.Tree{}
	specOf := map[string]coreh.FileSpec{}
	for path, f := range p.Tree.Uploadable() {
		model0[path] = full[path]
		specOf[path] = f
	}
	o := coreh.UploadOpts{Leaf: p.Leaf, Concurrency: p.UpConc, Message: "c04"}
	expectFail := false
	if p.Mode == "keys" {
		o.Keys, o.SkipMissing = p.Keys, p.SkipMiss
		sel := coreh.Tree{}
		for _, k := range p.Keys {
			if b, ok := model0[k]; ok {
				sel[k] = b
			} else if _, exists := full[k]; !exists && !p.SkipMiss {
				expectFail = true
			}
		}
		model0 = sel
	}
	id, err := env.Upload(nil, "repo", src, o)
	res.Stat("uploads", 1)
	bundles, lerr := core.ListBundles("repo", env.Stores(nil))
	if lerr != nil {
		res.Violate("list-failed", "after-upload", "ListBundles: %v", lerr)
		return
	}
	if expectFail {
		if err == nil {
			res.Violate("missing-key-accepted", "no-skip-missing", "UploadSpecificKeys with a missing key and without skip-missing succeeded (keys %v)", p.Keys)
		}
		if len(bundles) != 0 {
			res.Violate("failed-upload-visible", "missing-key", "the failed upload left a visible bundle %v", bundles[0].ID)
		}
		res.Nontrivial = true
		res.Stat("uploads_refused", 1)
		res.Sample = map[string]interface{}{"mode": p.Mode, "keys": p.Keys, "upload_error": fmt.Sprint(err)}
		return
	}
	if err != nil {
		res.Violate("upload-failed", c.Class, "upload of %d files (leaf %d, concurrency %d, mode %s) failed: %v", len(p.Tree.Files), p.Leaf, p.UpConc, p.Mode, err)
		return
	}
	if len(bundles) != 1 || bundles[0].ID != id {
		res.Violate("bundle-not-listed", "after-upload", "after a successful upload ListBundles returned %d bundles", len(bundles))
		return
	}
	res.Nontrivial = true

	// ---- entries vs model
	bd, entries, err := env.Entries(nil, "repo", id)
	if err != nil {
		res.Violate("metadata-failed", c.Class, "DownloadMetadata: %v", err)
		return
	}
	seen := map[string]int{}
	keyOfContent := map[string]string{}
	contentOfKey := map[string]string{}
	for _, e := range entries {
		n := norm(e.NameWithPath)
		seen[n]++
		want, ok := model0[n]
		if !ok {
			cls := "not-in-tree"
			if coreh.IsGeneratedRef(n) {
				cls = "generated-path-uploaded"
			} else if _, infull := full[n]; infull {
				cls = "not-selected"
			}
			res.Violate("unexpected-entry", cls, "bundle lists %q which must not be in it", e.NameWithPath)
			continue
		}
		if e.Size != uint64(len(want)) {
			res.Violate("entry-size", "size", "entry %q has size %d, the file has %d bytes", n, e.Size, len(want))
		}
		d := fmt.Sprintf("%x", sha256.Sum256(want))
		if k, ok := keyOfContent[d]; ok && k != e.Hash {
			res.Violate("entry-key", "same-content-different-key", "two files with identical content have keys %s… and %s…", k[:12], e.Hash[:12])
		}
		if od, ok := contentOfKey[e.Hash]; ok && od != d {
			res.Violate("entry-key", "different-content-same-key", "two files with different content share key %s…", e.Hash[:12])
		}
		keyOfContent[d], contentOfKey[e.Hash] = e.Hash, d
	}
	for n, k := range seen {
		if k > 1 {
			res.Violate("duplicate-entry", p.Mode, "path %q is listed %d times in the bundle", n, k)
		}
	}
	for n := range model0 {
		if seen[n] == 0 {
			cls := "plain"
			if strings.HasPrefix(n, "..") {
				cls = "dotdot-name"
			}
			res.Violate("missing-entry", cls, "file %q is not in the bundle (%d entries, %d files expected)", n, len(entries), len(model0))
		}
	}
	res.Stat("entries_checked", int64(len(entries)))
	// a sample of keys goes to the independent BLAKE2 oracle
	sent := 0
	for _, e := range entries {
		if f, ok := specOf[norm(e.NameWithPath)]; ok && sent < 6 && f.Len <= 3*MiB {
			res.Offline = append(res.Offline, map[string]interface{}{"seed": p.Tree.Seed, "label": f.Label, "len": f.Len, "leaf": int(p.Leaf), "key": e.Hash, "source": "core.Upload", "class": "bundle-entry"})
			sent++
		}
	}
	// ---- index files layout
	nIdx := (len(entries) + 999) / 1000
	if int(bd.BundleEntriesFileCount) != nIdx {
		res.Violate("index-count", "count", "descriptor says %d index files for %d entries (expected %d)", bd.BundleEntriesFileCount, len(entries), nIdx)
	}
	meta := env.Meta.Snapshot()
	for i := 0; i < int(bd.BundleEntriesFileCount); i++ {
		raw, ok := meta[model.GetArchivePathToBundleFileList("repo", id, uint64(i))]
		if !ok {
			res.Violate("index-file-missing", "missing", "index file %d of %d is not in the metadata store", i, bd.BundleEntriesFileCount)
			continue
		}
		var be model.BundleEntries
		if err := yaml.Unmarshal(raw, &be); err != nil {
			res.Violate("index-file-unreadable", "yaml", "index file %d: %v", i, err)
			continue
		}
		if i < int(bd.BundleEntriesFileCount)-1 && len(be.BundleEntries) != 1000 {
			res.Violate("index-file-size", "not-1000", "index file %d of %d holds %d entries", i, bd.BundleEntriesFileCount, len(be.BundleEntries))
		}
		if len(be.BundleEntries) == 0 || len(be.BundleEntries) > 1000 {
			res.Violate("index-file-size", "empty-or-oversized", "index file %d holds %d entries", i, len(be.BundleEntries))
		}
	}
	res.Seen("index_files", fmt.Sprint(bd.BundleEntriesFileCount))

	// ---- full download
	check := func(what string, want coreh.Tree, f func(dest string) error) {
		dir := tmp("c04-dst-")
		defer os.RemoveAll(dir)
		if err := f(dir); err != nil {
			res.Violate("download-failed", what, "%s failed: %v", what, err)
			return
		}
		got, err := coreh.ReadDir(dir)
		if err != nil {
			panic(err)
		}
		res.Stat("downloads", 1)
		for path := range got {
			if strings.HasPrefix(path, ".datamon/") {
				if _, err := model.GetConsumableStorePathMetadata(path); err != nil {
					res.Violate("download-extra-file", what+"|under-.datamon", "%s wrote %q which is no bundle metadata", what, path)
				}
			}
		}
		data := coreh.WithoutMeta(got)
		if d := coreh.DiffTrees(data, want); d != "" {
			res.Violate("download-mismatch", what, "%s of bundle with %d entries: destination differs from the uploaded files: %s", what, len(entries), d)
		}
		res.Stat("files_compared", int64(len(want)))
	}
	check("Publish", model0, func(dest string) error { return env.Publish(nil, "repo", id, coreh.LocalFS(dest), p.DownConc) })

	if p.Mode == "tree" {
		// ---- filtered download
		pred := predicate(p.PredKind)
		want := coreh.Tree{}
		for n, b := range model0 {
			if pred(n) {
				want[n] = b
			}
		}
		res.Stat("filtered_selected_files", int64(len(want)))
		check("PublishSelectBundleEntries", want, func(dest string) error {
			b := env.ReadBundle(nil, "repo", id, coreh.LocalFS(dest), p.DownConc)
			return core.PublishSelectBundleEntries(context.Background(), b, func(s string) (bool, error) { return pred(s), nil })
		})
		// ---- single file
		if len(entries) > 0 {
			rr := rand.New(rand.NewSource(p.Seed))
			e := entries[rr.Intn(len(entries))]
			check("PublishFile", coreh.Tree{norm(e.NameWithPath): model0[norm(e.NameWithPath)]}, func(dest string) error {
				b := env.ReadBundle(nil, "repo", id, coreh.LocalFS(dest), p.DownConc)
				return core.PublishFile(context.Background(), b, e.NameWithPath)
			})
		}
	}
	var names []string
	for _, f := range p.Tree.Files {
		names = append(names, f.Path)
	}
	sort.Strings(names)
	if len(names) > 6 {
		names = names[:6]
	}
	res.Sample = map[string]interface{}{"files": len(p.Tree.Files), "uploadable": len(p.Tree.Uploadable()), "entries": len(entries), "leaf": p.Leaf, "mode": p.Mode,
		"first_paths": names, "keys": trimList(p.Keys), "predicate": p.PredKind, "index_files": bd.BundleEntriesFileCount}
	_ = bytes.Equal
}

func trimList(xs []string) []string {
	if len(xs) > 8 {
		return xs[:8]
	}
	return xs
}

func TestC04(t *testing.T) {
	drv.Main(t, drv.Driver{ID: "C04", Gen: gen04, Run: run04, CaseTimeout: 30 * time.Minute})
}
