package c04

import (
	"bytes"
	"context"
	"crypto/sha256"
	"fmt"
	"hash/fnv"
	"io"
	"math/rand"
	"os"
	"sort"
	"strings"
	"testing"
	"time"

	"gopkg.in/yaml.v2"

	"github.com/oneconcern/datamon/pkg/core"
	"github.com/oneconcern/datamon/pkg/model"

	"verifharness/cafsh"
	"verifharness/coreh"
	"verifharness/drv"
	"verifharness/gen"
	"verifharness/memstore"
	"verifharness/sparsestore"
)

// C04 — bundle upload then download reproduces the uploaded tree.

type params struct {
	Tree     coreh.TreeSpec `json:"tree"`
	Leaf     uint32         `json:"leaf"`
	UpConc   int            `json:"upload_concurrency"`
	DownConc int            `json:"download_concurrency"`
	Mode     string         `json:"mode"`           // tree | keys
	Keys     []string       `json:"keys,omitempty"` // explicit key list
	SkipMiss bool           `json:"skip_missing"`
	PredKind string         `json:"predicate,omitempty"` // prefix:<p> | suffix:<s> | hashmod:<m>:<r>
	Seed     int64          `json:"seed"`
	// mode huge: one file of HugeLeaves leaves + HugeTail bytes
	HugeLeaves int `json:"huge_file_leaves,omitempty"`
	HugeTail   int `json:"huge_file_tail_bytes,omitempty"`
}

const MiB = 1 << 20

func gen04(seed int64, tier string) []drv.Case {
	r := gen.Rand(seed, "c04")
	var cs []drv.Case
	add := func(class string, p params) {
		p.Seed = r.Int63()
		cs = append(cs, drv.Case{ID: fmt.Sprintf("%s-%d", class, len(cs)), Class: class, Params: drv.MustJSON(p)})
	}
	upC := []int{1, 3, 4, 20}
	dnC := []int{1, 2, 3, 10}
	preds := func() string {
		switch r.Intn(3) {
		case 0:
			return "prefix:" + []string{"a", "d1/", "data", "x"}[r.Intn(4)]
		case 1:
			return "suffix:" + []string{"a", "0", "z", "1"}[r.Intn(4)]
		}
		m := 2 + r.Intn(4)
		return fmt.Sprintf("hashmod:%d:%d", m, r.Intn(m))
	}
	small := 24
	if tier == "thorough" {
		small = 420
	}
	for i := 0; i < small; i++ {
		leaf := []int{64, 64, 4096, 4096, 65, 100}[r.Intn(6)]
		n := []int{0, 1, 2, 5, 12, 37}[r.Intn(6)]
		ts := coreh.GenTree(r, r.Int63(), n, coreh.TreeOpt{Leaf: leaf, Decoys: r.Intn(2) == 0, DupRatio: 4})
		add(fmt.Sprintf("small-leaf%d", leaf), params{Tree: ts, Leaf: uint32(leaf), UpConc: upC[r.Intn(4)], DownConc: dnC[r.Intn(4)], Mode: "tree", PredKind: preds()})
	}
	bigs := []int{999, 1000, 1001}
	if tier == "thorough" {
		bigs = []int{999, 1000, 1001, 1999, 2000, 2001, 2500, 1001, 1000}
	}
	for _, n := range bigs {
		ts := coreh.GenTree(r, r.Int63(), n, coreh.TreeOpt{Tiny: true, Decoys: true, DupRatio: 10})
		add("index-boundary", params{Tree: ts, Leaf: 2 * MiB, UpConc: upC[r.Intn(4)], DownConc: dnC[r.Intn(4)], Mode: "tree", PredKind: preds()})
	}
	nl := 2
	if tier == "thorough" {
		nl = 16
	}
	for i := 0; i < nl; i++ {
		leaf := []int{2 * MiB, 5 * MiB, MiB, MiB + MiB/2}[i%4]
		ts := coreh.GenTree(r, r.Int63(), 3, coreh.TreeOpt{Leaf: leaf, DupRatio: 3})
		add(fmt.Sprintf("big-leaf%d", leaf), params{Tree: ts, Leaf: uint32(leaf), UpConc: upC[r.Intn(4)], DownConc: dnC[r.Intn(4)], Mode: "tree", PredKind: preds()})
	}
	nk := 16
	if tier == "thorough" {
		nk = 160
	}
	for i := 0; i < nk; i++ {
		leaf := []int{64, 4096}[r.Intn(2)]
		ts := coreh.GenTree(r, r.Int63(), 4+r.Intn(12), coreh.TreeOpt{Leaf: leaf, Decoys: r.Intn(2) == 0, DupRatio: 4})
		var keys []string
		for _, f := range ts.Files {
			if r.Intn(3) != 0 {
				keys = append(keys, f.Path)
			}
		}
		cls := "keys-plain"
		switch i % 4 {
		case 1:
			if len(keys) > 0 {
				k := keys[r.Intn(len(keys))]
				keys = append(keys, k)
				if r.Intn(2) == 0 {
					keys = append([]string{k}, keys...)
				}
			}
			cls = "keys-repeated"
		case 2:
			keys = append(keys, "no/such/file", "nope")
			cls = "keys-missing"
		case 3:
			keys = append(keys, "no/such/file")
			cls = "keys-missing-skip"
		}
		r.Shuffle(len(keys), func(a, b int) { keys[a], keys[b] = keys[b], keys[a] })
		if keys == nil {
			keys = []string{}
		}
		add(cls, params{Tree: ts, Leaf: uint32(leaf), UpConc: upC[r.Intn(4)], DownConc: dnC[r.Intn(4)], Mode: "keys", Keys: keys, SkipMiss: i%4 == 3})
	}
	// store faults: every store call of an upload and of a download of a small tree fails once
	nfault := 4
	if tier == "thorough" {
		nfault = 60
	}
	for i := 0; i < nfault; i++ {
		leaf := []int{64, 4096}[r.Intn(2)]
		ts := coreh.GenTree(r, r.Int63(), 2+r.Intn(6), coreh.TreeOpt{Leaf: leaf, DupRatio: 3, Decoys: i%2 == 0})
		add("store-fault", params{Tree: ts, Leaf: uint32(leaf), UpConc: upC[r.Intn(4)], DownConc: dnC[r.Intn(4)], Mode: "fault"})
	}
	// a file of 4 GiB and more (offsets beyond 32 bits), through a sparse blob store: thorough tier only here (C17 runs
	// one on its quick tier through the same download code)
	if tier == "thorough" {
		for i := 0; i < 2; i++ {
			add("file>=4GiB", params{Leaf: 2 * MiB, UpConc: 2, DownConc: 2, Mode: "huge", HugeLeaves: 2048 + []int{2, 17}[i], HugeTail: []int{0, 4321}[i]})
		}
	}
	return cs
}

func norm(p string) string {
	p = strings.TrimPrefix(p, "./")
	return strings.TrimPrefix(p, "/")
}

func predicate(kind string) func(string) bool {
	var a string
	var m, rr int
	switch {
	case strings.HasPrefix(kind, "prefix:"):
		a = kind[7:]
		return func(s string) bool { return strings.HasPrefix(norm(s), a) }
	case strings.HasPrefix(kind, "suffix:"):
		a = kind[7:]
		return func(s string) bool { return strings.HasSuffix(s, a) }
	}
	fmt.Sscanf(kind, "hashmod:%d:%d", &m, &rr)
	return func(s string) bool {
		h := fnv.New32a()
		h.Write([]byte(norm(s)))
		return int(h.Sum32()%uint32(m)) == rr
	}
}

func tmp(prefix string) string {
	d, err := os.MkdirTemp(os.Getenv("VERIF_SCRATCH"), prefix)
	if err != nil {
		panic(err)
	}
	return d
}

// runFault04: one store call of an upload, then of a download, fails (or a blob transfer is cut mid-body); the
// operation carries on along its error path. Whatever it reports, a success must have the full postcondition: an
// upload that returns nil lists exactly the model's files, a download that returns nil wrote exactly the tree.
func runFault04(p params, res *drv.Result) {
	tree := p.Tree.Tree()
	model := coreh.Tree{}
	for k, v := range tree {
		if !coreh.IsGeneratedRef(k) {
			model[k] = v
		}
	}
	base := coreh.NewEnv(memstore.Config{})
	if err := base.CreateRepo(nil, "r"); err != nil {
		panic(err)
	}
	base.MemConsumable("src", tree)
	evals := int64(0)
	upload := func(env *coreh.Env, a *memstore.Actor) (string, error) {
		// the source is read through the actor as well (a failing read of a source file is a fault too)
		return env.Upload(a, "r", env.W.Store("src").For(a), coreh.UploadOpts{Leaf: p.Leaf, Concurrency: p.UpConc})
	}
	dry := base.Clone()
	da := memstore.NewActor("dry")
	id0, err := upload(dry, da)
	if err != nil {
		res.Violate("operation-failed", "upload", "fault-free upload failed: %v", err)
		return
	}
	ncalls, _ := da.Calls()
	checkBundle := func(env *coreh.Env, id, what string) bool {
		_, ents, err := env.Entries(nil, "r", id)
		if err != nil {
			res.Violate("successful-upload-unreadable", sigOf(what), "%s: Upload returned nil but the bundle does not read back: %v", what, err)
			return false
		}
		got := map[string]bool{}
		for _, e := range ents {
			got[norm(e.NameWithPath)] = true
		}
		for k := range model {
			if !got[norm(k)] {
				res.Violate("successful-upload-incomplete", "upload-fault", "%s: Upload returned nil but %q is not in the bundle (%d entries, %d files expected)", what, k, len(ents), len(model))
				return false
			}
		}
		if len(ents) != len(model) {
			res.Violate("successful-upload-incomplete", "upload-fault|extra", "%s: Upload returned nil with %d entries for %d files", what, len(ents), len(model))
			return false
		}
		dest := env.W.Store("dest-" + id)
		if err := env.Publish(nil, "r", id, dest.For(nil), 2); err != nil {
			res.Violate("successful-upload-unreadable", sigOf(what), "%s: Upload returned nil but the bundle does not download: %v", what, err)
			return false
		}
		if d := coreh.DiffTrees(coreh.WithoutMeta(coreh.StoreTree(dest)), model); d != "" {
			res.Violate("successful-upload-incomplete", "upload-fault|content", "%s: %s", what, d)
			return false
		}
		return true
	}
	step := 1
	if ncalls > 60 {
		step = ncalls / 60
	}
	for k := 1; k <= ncalls; k += step {
		k := k
		env := base.Clone()
		a := memstore.NewActor("uploader")
		kind := ""
		a.SetFault(func(c memstore.Call) error {
			if c.Index == k {
				kind = c.Store + "." + c.Op
				return memstore.ErrInjected
			}
			return nil
		})
		id, err := upload(env, a)
		evals++
		res.Stat("upload_fault_points", 1)
		res.Seen("faulted_call_kinds", "upload:"+kind)
		if err != nil {
			res.Stat("uploads_reporting_the_fault", 1)
			// nothing visible, or a complete bundle
			bs, lerr := core.ListBundles("r", env.Stores(nil))
			if lerr != nil {
				res.Violate("listing-fails-after-failed-upload", kind, "upload failed on %s (call %d of %d), then ListBundles fails: %v", kind, k, ncalls, lerr)
				return
			}
			for _, b := range bs {
				if !checkBundle(env, b.ID, fmt.Sprintf("failed upload (fault on %s, call %d of %d) left a visible bundle", kind, k, ncalls)) {
					return
				}
			}
			continue
		}
		if !checkBundle(env, id, fmt.Sprintf("fault on %s (call %d of %d)", kind, k, ncalls)) {
			return
		}
	}
	// an earlier upload of the same tree died while writing its k-th blob on a store without atomic writes (an EMPTY
	// blob stays behind): uploading the tree again must repair it — the new bundle downloads with the full content
	nput := 0
	for _, e := range dry.W.Log(0) {
		if e.Actor == "dry" && e.Store == "blob" && e.Landed && (e.Op == "put" || e.Op == "putx") {
			nput++
		}
	}
	for k := 1; k <= nput; k++ {
		env := base.Clone()
		va := memstore.NewActor("victim").CrashWhen(func(c memstore.Call) bool { return c.Store == "blob" }, k, true).Torn()
		done := make(chan struct{})
		go func() { _, _ = upload(env, va); close(done) }()
		select {
		case <-va.Dead():
		case <-done:
			continue
		}
		id, err := upload(env, memstore.NewActor("second-uploader"))
		evals++
		res.Stat("uploads_after_a_torn_blob_write", 1)
		if err != nil {
			res.Violate("upload-fails-after-torn-blob", "upload-after-torn-write", "an earlier upload died while writing blob %d of %d (empty blob left behind); uploading the same tree again fails: %v", k, nput, err)
			return
		}
		if !checkBundle(env, id, fmt.Sprintf("upload after an earlier upload died while writing blob %d of %d, leaving it empty", k, nput)) {
			return
		}
	}
	// downloads of the fault-free bundle under one failing call / one cut transfer
	dd := memstore.NewActor("dry-dl")
	if err := dry.Publish(dd, "r", id0, dry.W.Store("dry-dest").For(dd), p.DownConc); err != nil {
		res.Violate("operation-failed", "download", "fault-free download failed: %v", err)
		return
	}
	ndl, _ := dd.Calls()
	step = 1
	if ndl > 60 {
		step = ndl / 60
	}
	for k := 1; k <= ndl; k += step {
		for _, cut := range []bool{false, true} {
			k := k
			env := dry.Clone()
			a := memstore.NewActor("downloader")
			kind := ""
			if cut {
				n := 0
				a.SetReadFault(func(c memstore.Call, size int) (int, error) {
					if c.Store != "blob" {
						return 0, nil
					}
					n++
					if n == 1+k%7 && size > 1 {
						kind = "blob.get-body-cut"
						return size / 2, io.ErrUnexpectedEOF
					}
					return 0, nil
				})
			} else {
				a.SetFault(func(c memstore.Call) error {
					if c.Index == k {
						kind = c.Store + "." + c.Op
						return memstore.ErrInjected
					}
					return nil
				})
			}
			dest := env.W.Store(fmt.Sprintf("dest-%d-%v", k, cut))
			err := env.Publish(a, "r", id0, dest.For(a), p.DownConc)
			evals++
			res.Stat("download_fault_points", 1)
			res.Seen("faulted_call_kinds", "download:"+kind)
			if err != nil {
				res.Stat("downloads_reporting_the_fault", 1)
				continue
			}
			if d := coreh.DiffTrees(coreh.WithoutMeta(coreh.StoreTree(dest)), model); d != "" {
				res.Violate("successful-download-wrong", "download-fault|"+kind, "Publish returned nil under a fault on %s (call %d of %d) but the destination differs from the bundle: %s", kind, k, ndl, d)
				return
			}
		}
	}
	res.Nontrivial = len(model) > 0
	res.Evals, res.Distinct = evals-1, evals-1
	res.Sample = map[string]interface{}{"mode": "fault", "files": len(model), "leaf": p.Leaf, "upload_calls": ncalls, "download_calls": ndl, "executions": evals}
}

// sigOf turns a description into a signature fragment (numbers dropped).
func sigOf(what string) string {
	var b strings.Builder
	for _, r := range what {
		if r < '0' || r > '9' {
			b.WriteRune(r)
		}
	}
	return strings.Join(strings.Fields(b.String()), "-")
}

// runHuge04: one file of HugeLeaves 2 MiB leaves + HugeTail bytes goes up and comes down again (hash verification on,
// then off); the downloaded file is compared around every sampled leaf boundary.
func runHuge04(p params, res *drv.Result) {
	env := coreh.NewEnv(memstore.Config{})
	blob := sparsestore.New("blob")
	env.BlobOverride = blob
	if err := env.CreateRepo(nil, "repo"); err != nil {
		panic(err)
	}
	L := int64(p.Leaf)
	size := int64(p.HugeLeaves)*L + int64(p.HugeTail)
	g := sparsestore.MarkedLeaves(p.Seed, L)
	src := sparsestore.New("src")
	src.AddVirtual("big/huge.bin", size, g)
	src.AddVirtual("small.txt", 300, sparsestore.MarkedLeaves(p.Seed+1, 100))
	id, err := env.Upload(nil, "repo", src, coreh.UploadOpts{Leaf: p.Leaf, Concurrency: p.UpConc})
	if err != nil {
		res.Violate("upload-failed", "file>=4GiB", "upload of a %d byte file failed: %v", size, err)
		return
	}
	_, entries, err := env.Entries(nil, "repo", id)
	if err != nil {
		res.Violate("entries-unreadable", "file>=4GiB", "%v", err)
		return
	}
	for _, e := range entries {
		if norm(e.NameWithPath) == "big/huge.bin" && int64(e.Size) != size {
			res.Violate("entry-size", "file>=4GiB", "bundle entry of the %d byte file says %d bytes", size, e.Size)
			return
		}
	}
	r := rand.New(rand.NewSource(p.Seed))
	for _, verify := range []bool{true, false} {
		what := fmt.Sprintf("Publish(verify-hash=%v)", verify)
		dir := tmp("c04-huge-")
		b := core.NewBundle(core.Repo("repo"), core.ContextStores(env.Stores(nil)), core.BundleID(id), core.Logger(coreh.Nop),
			core.ConsumableStore(coreh.LocalFS(dir)), core.ConcurrentFileDownloads(p.DownConc), core.BundleWithVerifyHash(verify))
		if err := core.Publish(context.Background(), b); err != nil {
			os.RemoveAll(dir)
			res.Violate("download-failed", what+"|file>=4GiB", "%s of a bundle with a %d byte file failed: %v", what, size, err)
			return
		}
		f, err := os.Open(dir + "/big/huge.bin")
		if err != nil {
			os.RemoveAll(dir)
			res.Violate("download-missing-file", what+"|file>=4GiB", "%s: %v", what, err)
			return
		}
		st, _ := f.Stat()
		bad := ""
		if st.Size() != size {
			bad = fmt.Sprintf("the downloaded file has %d bytes, the uploaded one %d", st.Size(), size)
		}
		leaves := []int64{0, 1, 2, 1023, 1024, 2046, 2047, 2048, 2049, int64(p.HugeLeaves) - 1, int64(p.HugeLeaves)}
		for i := 0; i < 40; i++ {
			leaves = append(leaves, r.Int63n(int64(p.HugeLeaves)+1))
		}
		for _, li := range leaves {
			off := li*L - 40
			if off < 0 {
				off = 0
			}
			if off >= size || bad != "" {
				continue
			}
			want := make([]byte, 120)
			if int64(len(want)) > size-off {
				want = want[:size-off]
			}
			g(off, want)
			got := make([]byte, len(want))
			n, _ := f.ReadAt(got, off)
			res.Stat("huge_file_reads", 1)
			if !bytes.Equal(got[:n], want) {
				bad = fmt.Sprintf("bytes [%d,%d) (around the start of leaf %d) differ from the uploaded file: got %x…, uploaded %x…", off, off+int64(len(want)), li, got[:minInt(n, 24)], want[:minInt(len(want), 24)])
			}
		}
		f.Close()
		os.RemoveAll(dir)
		if bad != "" {
			res.Violate("download-mismatch", what+"|file>=4GiB", "%s: %s", what, bad)
			return
		}
		res.Stat("huge_file_downloads", 1)
	}
	res.Nontrivial = true
	res.Seen("leaf_size", fmt.Sprint(p.Leaf))
	res.Sample = map[string]interface{}{"mode": "huge", "file_bytes": size, "leaves": p.HugeLeaves, "blob_bytes_sent": blob.BytesPut, "blob_bytes_kept_by_sparse_store": blob.BytesKept}
}

func minInt(a, b int) int {
	if a < b {
		return a
	}
	return b
}

func run04(c drv.Case, res *drv.Result) {
	var p params
	drv.Params(c, &p)
	cafsh.InstallWriteProgressMonitor()
	if p.Mode == "fault" {
		res.Canon = string(c.Params)
		runFault04(p, res)
		return
	}
	if p.Mode == "huge" {
		res.Canon = string(c.Params)
		runHuge04(p, res)
		return
	}
	// the store's readers hand blobs out whole, in small pieces, and/or with their last bytes together with io.EOF
	env := coreh.NewEnv(memstore.Config{ChunkedReader: []int{0, 0, 7, 4096}[p.Seed%4], EOFWithData: (p.Seed/4)%2 == 1})
	if err := env.CreateRepo(nil, "repo"); err != nil {
		panic(err)
	}
	full := p.Tree.Tree()
	srcDir := tmp("c04-src-")
	defer os.RemoveAll(srcDir)
	if err := coreh.WriteDir(srcDir, full); err != nil {
		panic(err)
	}
	src := coreh.LocalFS(srcDir)
	res.Canon = fmt.Sprintf("%x", sha256.Sum256(c.Params))
	res.Seen("leaf_size", fmt.Sprint(p.Leaf))
	res.Seen("file_count", fmt.Sprint(len(p.Tree.Files)))
	res.Seen("upload_concurrency", fmt.Sprint(p.UpConc))
	res.Seen("download_concurrency", fmt.Sprint(p.DownConc))

	// the model: what must be in the bundle
	model0 := coreh.Tree{}
	specOf := map[string]coreh.FileSpec{}
	for path, f := range p.Tree.Uploadable() {
		model0[path] = full[path]
		specOf[path] = f
	}
	o := coreh.UploadOpts{Leaf: p.Leaf, Concurrency: p.UpConc, Message: "c04"}
	expectFail := false
	if p.Mode == "keys" {
		o.Keys, o.SkipMissing = p.Keys, p.SkipMiss
		sel := coreh.Tree{}
		for _, k := range p.Keys {
			if b, ok := model0[k]; ok {
				sel[k] = b
			} else if _, exists := full[k]; !exists && !p.SkipMiss {
				expectFail = true
			}
		}
		model0 = sel
	}
	id, err := env.Upload(nil, "repo", src, o)
	res.Stat("uploads", 1)
	bundles, lerr := core.ListBundles("repo", env.Stores(nil))
	if lerr != nil {
		res.Violate("list-failed", "after-upload", "ListBundles: %v", lerr)
		return
	}
	if expectFail {
		if err == nil {
			res.Violate("missing-key-accepted", "no-skip-missing", "UploadSpecificKeys with a missing key and without skip-missing succeeded (keys %v)", p.Keys)
		}
		if len(bundles) != 0 {
			res.Violate("failed-upload-visible", "missing-key", "the failed upload left a visible bundle %v", bundles[0].ID)
		}
		res.Nontrivial = true
		res.Stat("uploads_refused", 1)
		res.Sample = map[string]interface{}{"mode": p.Mode, "keys": p.Keys, "upload_error": fmt.Sprint(err)}
		return
	}
	if err != nil {
		res.Violate("upload-failed", c.Class, "upload of %d files (leaf %d, concurrency %d, mode %s) failed: %v", len(p.Tree.Files), p.Leaf, p.UpConc, p.Mode, err)
		return
	}
	if len(bundles) != 1 || bundles[0].ID != id {
		res.Violate("bundle-not-listed", "after-upload", "after a successful upload ListBundles returned %d bundles", len(bundles))
		return
	}
	res.Nontrivial = true

	// ---- entries vs model
	bd, entries, err := env.Entries(nil, "repo", id)
	if err != nil {
		res.Violate("metadata-failed", c.Class, "DownloadMetadata: %v", err)
		return
	}
	seen := map[string]int{}
	keyOfContent := map[string]string{}
	contentOfKey := map[string]string{}
	for _, e := range entries {
		n := norm(e.NameWithPath)
		seen[n]++
		want, ok := model0[n]
		if !ok {
			cls := "not-in-tree"
			if coreh.IsGeneratedRef(n) {
				cls = "generated-path-uploaded"
			} else if _, infull := full[n]; infull {
				cls = "not-selected"
			}
			res.Violate("unexpected-entry", cls, "bundle lists %q which must not be in it", e.NameWithPath)
			continue
		}
		if e.Size != uint64(len(want)) {
			res.Violate("entry-size", "size", "entry %q has size %d, the file has %d bytes", n, e.Size, len(want))
		}
		d := fmt.Sprintf("%x", sha256.Sum256(want))
		if k, ok := keyOfContent[d]; ok && k != e.Hash {
			res.Violate("entry-key", "same-content-different-key", "two files with identical content have keys %s… and %s…", k[:12], e.Hash[:12])
		}
		if od, ok := contentOfKey[e.Hash]; ok && od != d {
			res.Violate("entry-key", "different-content-same-key", "two files with different content share key %s…", e.Hash[:12])
		}
		keyOfContent[d], contentOfKey[e.Hash] = e.Hash, d
	}
	for n, k := range seen {
		if k > 1 {
			res.Violate("duplicate-entry", p.Mode, "path %q is listed %d times in the bundle", n, k)
		}
	}
	for n := range model0 {
		if seen[n] == 0 {
			cls := "plain"
			if strings.HasPrefix(n, "..") {
				cls = "dotdot-name"
			}
			res.Violate("missing-entry", cls, "file %q is not in the bundle (%d entries, %d files expected)", n, len(entries), len(model0))
		}
	}
	res.Stat("entries_checked", int64(len(entries)))
	// a sample of keys goes to the independent BLAKE2 oracle
	sent := 0
	for _, e := range entries {
		if f, ok := specOf[norm(e.NameWithPath)]; ok && sent < 6 && f.Len <= 3*MiB {
			res.Offline = append(res.Offline, map[string]interface{}{"seed": p.Tree.Seed, "label": f.Label, "len": f.Len, "leaf": int(p.Leaf), "key": e.Hash, "source": "core.Upload", "class": "bundle-entry"})
			sent++
		}
	}
	// ---- index files layout
	nIdx := (len(entries) + 999) / 1000
	if int(bd.BundleEntriesFileCount) != nIdx {
		res.Violate("index-count", "count", "descriptor says %d index files for %d entries (expected %d)", bd.BundleEntriesFileCount, len(entries), nIdx)
	}
	meta := env.Meta.Snapshot()
	for i := 0; i < int(bd.BundleEntriesFileCount); i++ {
		raw, ok := meta[model.GetArchivePathToBundleFileList("repo", id, uint64(i))]
		if !ok {
			res.Violate("index-file-missing", "missing", "index file %d of %d is not in the metadata store", i, bd.BundleEntriesFileCount)
			continue
		}
		var be model.BundleEntries
		if err := yaml.Unmarshal(raw, &be); err != nil {
			res.Violate("index-file-unreadable", "yaml", "index file %d: %v", i, err)
			continue
		}
		if i < int(bd.BundleEntriesFileCount)-1 && len(be.BundleEntries) != 1000 {
			res.Violate("index-file-size", "not-1000", "index file %d of %d holds %d entries", i, bd.BundleEntriesFileCount, len(be.BundleEntries))
		}
		if len(be.BundleEntries) == 0 || len(be.BundleEntries) > 1000 {
			res.Violate("index-file-size", "empty-or-oversized", "index file %d holds %d entries", i, len(be.BundleEntries))
		}
	}
	res.Seen("index_files", fmt.Sprint(bd.BundleEntriesFileCount))

	// ---- full download
	check := func(what string, want coreh.Tree, f func(dest string) error) {
		dir := tmp("c04-dst-")
		defer os.RemoveAll(dir)
		if err := f(dir); err != nil {
			res.Violate("download-failed", what, "%s failed: %v", what, err)
			return
		}
		got, err := coreh.ReadDir(dir)
		if err != nil {
			panic(err)
		}
		res.Stat("downloads", 1)
		for path := range got {
			if strings.HasPrefix(path, ".datamon/") {
				if _, err := model.GetConsumableStorePathMetadata(path); err != nil {
					res.Violate("download-extra-file", what+"|under-.datamon", "%s wrote %q which is no bundle metadata", what, path)
				}
			}
		}
		data := coreh.WithoutMeta(got)
		if d := coreh.DiffTrees(data, want); d != "" {
			res.Violate("download-mismatch", what, "%s of bundle with %d entries: destination differs from the uploaded files: %s", what, len(entries), d)
		}
		res.Stat("files_compared", int64(len(want)))
	}
	check("Publish", model0, func(dest string) error { return env.Publish(nil, "repo", id, coreh.LocalFS(dest), p.DownConc) })
	// the same download with hash verification switched off (--verify-hash=false): another copy path inside cafs
	check("Publish(verify-hash=false)", model0, func(dest string) error {
		b := core.NewBundle(core.Repo("repo"), core.ContextStores(env.Stores(nil)), core.BundleID(id), core.Logger(coreh.Nop),
			core.ConsumableStore(coreh.LocalFS(dest)), core.ConcurrentFileDownloads(p.DownConc), core.ConcurrentFilelistDownloads(p.DownConc),
			core.BundleWithVerifyHash(false))
		return core.Publish(context.Background(), b)
	})

	if p.Mode == "tree" {
		// ---- filtered download
		pred := predicate(p.PredKind)
		want := coreh.Tree{}
		for n, b := range model0 {
			if pred(n) {
				want[n] = b
			}
		}
		res.Stat("filtered_selected_files", int64(len(want)))
		check("PublishSelectBundleEntries", want, func(dest string) error {
			b := env.ReadBundle(nil, "repo", id, coreh.LocalFS(dest), p.DownConc)
			return core.PublishSelectBundleEntries(context.Background(), b, func(s string) (bool, error) { return pred(s), nil })
		})
		// ---- single file
		if len(entries) > 0 {
			rr := rand.New(rand.NewSource(p.Seed))
			e := entries[rr.Intn(len(entries))]
			check("PublishFile", coreh.Tree{norm(e.NameWithPath): model0[norm(e.NameWithPath)]}, func(dest string) error {
				b := env.ReadBundle(nil, "repo", id, coreh.LocalFS(dest), p.DownConc)
				return core.PublishFile(context.Background(), b, e.NameWithPath)
			})
		}
	}
	var names []string
	for _, f := range p.Tree.Files {
		names = append(names, f.Path)
	}
	sort.Strings(names)
	if len(names) > 6 {
		names = names[:6]
	}
	res.Sample = map[string]interface{}{"files": len(p.Tree.Files), "uploadable": len(p.Tree.Uploadable()), "entries": len(entries), "leaf": p.Leaf, "mode": p.Mode,
		"first_paths": names, "keys": trimList(p.Keys), "predicate": p.PredKind, "index_files": bd.BundleEntriesFileCount}
	_ = bytes.Equal
}

func trimList(xs []string) []string {
	if len(xs) > 8 {
		return xs[:8]
	}
	return xs
}

func TestC04(t *testing.T) {
	drv.Main(t, drv.Driver{ID: "C04", Gen: gen04, Run: run04, CaseTimeout: 30 * time.Minute})
}
