package c01

import (
	"bytes"
	"context"
	"fmt"
	"io"
	"math"
	"math/rand"
	"os"
	"runtime/debug"
	"strings"
	"sync"
	"testing"
	"time"

	"github.com/spf13/afero"

	"github.com/oneconcern/datamon/pkg/cafs"
	"github.com/oneconcern/datamon/pkg/storage"
	"github.com/oneconcern/datamon/pkg/storage/localfs"

	"verifharness/cafsh"
	"verifharness/drv"
	"verifharness/gen"
	"verifharness/memstore"
)

// C01 — the content store returns exactly the bytes that were stored.

type params struct {
	Leaf      int          `json:"leaf"`
	Len       int          `json:"len"`
	Src       cafsh.Source `json:"src"`
	Prefetch  int          `json:"prefetch"`
	CacheLv   int          `json:"cache_leaves"` // 0 = default cache
	Flush     int          `json:"flush_concurrency"`
	Store     string       `json:"store"` // mem | localfs
	Chunked   int          `json:"store_reader_chunk"`
	EOFT      bool         `json:"store_reader_eof_with_last_bytes,omitempty"`
	ProgSeed  int64        `json:"prog_seed"`
	Conc      int          `json:"concurrent_readers"`
	ContentID string       `json:"content"`
}

const MiB = 1 << 20

func lengths(leaf int, r *rand.Rand) []int {
	ls := []int{0, 1}
	for k := 1; k <= 6; k++ {
		ls = append(ls, k*leaf-1, k*leaf, k*leaf+1)
	}
	ls = append(ls, 1+r.Intn(6*leaf), 1+r.Intn(2*leaf))
	return ls
}

func sources(leaf int, r *rand.Rand) []cafsh.Source {
	s := []cafsh.Source{{Kind: "single"}, {Kind: "wt-rand", Seed: r.Int63()}, {Kind: "rd-rand", Seed: r.Int63()},
		{Kind: "eof-together", Chunk: leaf}, {Kind: "half"}, {Kind: "dataerr"}}
	for _, c := range []int{1, 7, leaf - 1, leaf, leaf + 1, 32 * 1024, 3 * leaf} {
		if c == 1 && leaf > 4096 {
			continue
		}
		s = append(s, cafsh.Source{Kind: "wt-fixed", Chunk: c}, cafsh.Source{Kind: "rd-fixed", Chunk: c})
	}
	if leaf <= 4096 {
		s = append(s, cafsh.Source{Kind: "onebyte"})
	}
	return s
}

func gen01(seed int64, tier string) []drv.Case {
	r := gen.Rand(seed, "c01")
	var cs []drv.Case
	add := func(class string, p params) {
		p.ProgSeed = r.Int63()
		p.ContentID = fmt.Sprintf("c%d", len(cs))
		cs = append(cs, drv.Case{ID: fmt.Sprintf("%s-%d", class, len(cs)), Class: class, Params: drv.MustJSON(p)})
	}
	cfg := func(p params) params {
		p.Prefetch = r.Intn(4)
		p.CacheLv = r.Intn(5)
		p.Flush = []int{1, 2, 3, 10, 16}[r.Intn(5)]
		p.Store = "mem"
		if r.Intn(10) == 0 {
			p.Store = "localfs"
		} else if r.Intn(3) == 0 {
			p.Chunked = []int{1, 7, 100, 4096}[r.Intn(4)]
			p.EOFT = r.Intn(2) == 0
		} else if r.Intn(4) == 0 {
			p.EOFT = true // whole blob in one Read, together with io.EOF
		}
		return p
	}
	small := []int{64, 65, 100, 4096}
	// every (length class x source class) at the small leaves
	reps := 1
	if tier == "thorough" {
		reps = 6
	}
	for rep := 0; rep < reps; rep++ {
		for _, leaf := range small {
			ls := lengths(leaf, r)
			srcs := sources(leaf, r)
			for _, l := range ls {
				for _, s := range srcs {
					if tier != "thorough" && leaf != 64 && r.Intn(4) != 0 {
						continue // quick: full cross product at leaf 64 only, a sample elsewhere
					}
					add(fmt.Sprintf("leaf%d", leaf), cfg(params{Leaf: leaf, Len: l, Src: s}))
				}
			}
		}
	}
	// larger leaves: sampled
	type big struct{ leaf, n int }
	bigs := []big{{64 * 1024, 12}, {MiB, 6}, {MiB + MiB/2, 4}, {2 * MiB, 4}, {5 * MiB, 3}}
	if tier == "thorough" {
		bigs = []big{{64 * 1024, 300}, {MiB, 120}, {MiB + MiB/2, 60}, {2 * MiB, 60}, {5 * MiB, 40}}
	}
	for _, b := range bigs {
		ls := lengths(b.leaf, r)
		srcs := sources(b.leaf, r)
		for i := 0; i < b.n; i++ {
			l := ls[r.Intn(len(ls))]
			if b.leaf == 5*MiB && l > 3*b.leaf {
				l -= 3 * b.leaf
			}
			add(fmt.Sprintf("leaf%d", b.leaf), cfg(params{Leaf: b.leaf, Len: l, Src: srcs[r.Intn(len(srcs))]}))
		}
	}
	// leaf sizes around the boundaries of the reader's pooled buffer classes (1, 2, 3, 4, 5 MiB) and PRNG leaf sizes:
	// one full leaf plus a partial one, so that a whole leaf must go through a pooled buffer
	classLeaves := []int{MiB - 1, MiB + 1, 2*MiB + 1, 3 * MiB, 3*MiB + 1, 4 * MiB, 4*MiB + 1, 4*MiB + MiB/2, 5*MiB - 1}
	nrand := 6
	if tier == "thorough" {
		nrand = 120
		classLeaves = append(classLeaves, classLeaves...)
	}
	for i := 0; i < nrand; i++ {
		// log-uniform in [64, 5 MiB]
		lg := 6.0 + r.Float64()*(22.32-6.0)
		leaf := int(math.Exp2(lg))
		if leaf > 5*MiB {
			leaf = 5 * MiB
		}
		classLeaves = append(classLeaves, leaf)
	}
	for _, leaf := range classLeaves {
		l := leaf + 1 + r.Intn(200)
		if leaf < MiB {
			l = 2*leaf + r.Intn(leaf)
		}
		p := cfg(params{Leaf: leaf, Len: l, Src: cafsh.Source{Kind: []string{"single", "rd-fixed"}[r.Intn(2)], Chunk: 32 * 1024}})
		p.Store, p.Chunked = "mem", 0
		add("buffer-class-leaf", p)
	}
	// concurrent ReadAt on one Fs with a tiny cache (shared LRU, pinning, free list recycling)
	nc := 12
	if tier == "thorough" {
		nc = 300
	}
	for i := 0; i < nc; i++ {
		leaf := []int{64, 4096, 64 * 1024}[r.Intn(3)]
		p := cfg(params{Leaf: leaf, Len: 4*leaf + r.Intn(2*leaf+1), Src: cafsh.Source{Kind: "single"}, Conc: 4})
		p.CacheLv = 1 + r.Intn(2)
		p.Store = "mem"
		add("concurrent-readat", p)
	}
	// configuration bounds: New must reject leaf sizes outside [64, 5 MiB]
	for _, leaf := range []int{0, 1, 63, 5*MiB + 1} {
		add("bounds", params{Leaf: leaf, Store: "mem", Src: cafsh.Source{Kind: "single"}})
	}
	return cs
}

func mkStore(p params, scratch string) (storage.Store, func()) {
	if p.Store == "localfs" {
		dir, err := os.MkdirTemp(scratch, "c01-lfs-")
		if err != nil {
			panic(err)
		}
		return localfs.New(afero.NewBasePathFs(afero.NewOsFs(), dir), localfs.WithRetry(false)), func() { os.RemoveAll(dir) }
	}
	w := memstore.NewWorld(memstore.Config{ChunkedReader: p.Chunked, EOFWithData: p.EOFT})
	return w.Store("blob").For(nil), func() {}
}

// style runs f, converting a panic into a violation attributed to the read style.
func style(res *drv.Result, name, class string, f func()) (ok bool) {
	ok = true
	defer func() {
		if x := recover(); x != nil {
			ok = false
			if ab, isAbort := x.(drv.Abort); isAbort {
				res.Violations = append(res.Violations, ab.V)
				return
			}
			if _, stop := x.(stopCase); stop {
				return
			}
			st := string(debug.Stack())
			frame := ""
			for _, l := range strings.Split(st, "\n") {
				l = strings.TrimSpace(l)
				if strings.HasPrefix(l, "github.com/oneconcern/datamon/") {
					frame = strings.TrimPrefix(l[:strings.LastIndex(l, "(")], "github.com/oneconcern/datamon/")
					break
				}
			}
			res.Violate("panic", name+"|"+class+"|"+frame, "%s panicked: %v", name, x)
		}
	}()
	f()
	return ok
}

func run01(c drv.Case, res *drv.Result) {
	var p params
	drv.Params(c, &p)
	scratch := os.Getenv("VERIF_SCRATCH")
	if scratch == "" {
		scratch = os.TempDir()
	}
	iters := cafsh.InstallWriteProgressMonitor()
	store, cleanup := mkStore(p, scratch)
	defer cleanup()

	if c.Class == "bounds" {
		_, err := cafsh.NewFs(store, uint32(p.Leaf))
		if err == nil {
			res.Violate("leaf-size-accepted", "out-of-range", "cafs.New accepted leaf size %d", p.Leaf)
		}
		res.Canon, res.Nontrivial = c.ID, false
		return
	}

	content := gen.Bytes(p.ProgSeed, p.ContentID, p.Len)
	opts := []cafs.Option{cafs.Prefetch(p.Prefetch), cafs.ConcurrentFlushes(p.Flush)}
	if p.CacheLv > 0 {
		opts = append(opts, cafs.CacheSize(p.CacheLv*p.Leaf))
	}
	fs, err := cafsh.NewFs(store, uint32(p.Leaf), opts...)
	if err != nil {
		res.Violate("new-failed", "in-range", "cafs.New(leaf=%d): %v", p.Leaf, err)
		return
	}
	lc := cafsh.LenClass(p.Len, p.Leaf)
	_, maxWrite := p.Src.Reader(nil, p.Leaf)
	if p.Src.Kind == "single" {
		maxWrite = p.Len
	}
	wclass := "writes<=leaf"
	if maxWrite > p.Leaf {
		wclass = "write>leaf"
	}
	res.Canon = fmt.Sprintf("leaf=%d len=%d src=%s/%d pf=%d cache=%d fl=%d st=%s/%d/%v conc=%d", p.Leaf, p.Len, p.Src.Kind, p.Src.Chunk, p.Prefetch, p.CacheLv, p.Flush, p.Store, p.Chunked, p.EOFT, p.Conc)
	res.Nontrivial = true
	res.Seen("length_class", lc)
	res.Seen("source_kind", p.Src.Kind+"/"+wclass)
	res.Seen("leaf_size", fmt.Sprint(p.Leaf))

	var put cafs.PutRes
	ok := false
	style(res, "Put", lc+"|"+wclass, func() {
		var e error
		put, e = cafsh.Put(fs, content, p.Leaf, p.Src)
		if e != nil {
			res.Violate("put-error", lc+"|"+wclass, "Put(len=%d, leaf=%d, source=%+v) failed: %v", p.Len, p.Leaf, p.Src, e)
			return
		}
		ok = true
	})
	res.Stat("write_loop_iterations_observed", iters())
	if !ok {
		return
	}
	res.Stat("puts", 1)
	if put.Written != int64(p.Len) {
		res.Violate("written-size", lc, "Put reported Written=%d for %d bytes", put.Written, p.Len)
	}
	wantLeaves := (p.Len + p.Leaf - 1) / p.Leaf
	if len(put.Keys) != wantLeaves*cafs.KeySize {
		res.Violate("leaf-count", lc, "Put returned %d leaf keys for %d bytes at leaf %d (expected %d)", len(put.Keys)/cafs.KeySize, p.Len, p.Leaf, wantLeaves)
	}

	// a second Fs over the same store: nothing may come from the first one's caches
	fs2, err := cafsh.NewFs(store, uint32(p.Leaf), opts...)
	if err != nil {
		panic(err)
	}
	r := rand.New(rand.NewSource(p.ProgSeed))
	ctx := context.Background()
	// a third one that reads without verifying hashes (--verify-hash=false): the same bytes must come back
	fs3, err := cafsh.NewFs(store, uint32(p.Leaf), append(append([]cafs.Option{}, opts...), cafs.VerifyHash(false))...)
	if err != nil {
		panic(err)
	}
	readers := []cafs.Fs{fs, fs2, fs3}

	expectAt := func(off int64, n int) []byte {
		if off >= int64(len(content)) {
			return nil
		}
		end := off + int64(n)
		if end > int64(len(content)) {
			end = int64(len(content))
		}
		return content[off:end]
	}

	// --- sequential Read with several buffer sizes
	bufs := []int{1, 7, p.Leaf - 1, p.Leaf, p.Leaf + 1, 2 * p.Leaf, 0}
	if p.Len > 64*1024 {
		bufs = []int{p.Leaf - 1, p.Leaf, p.Leaf + 1, 2 * p.Leaf, 32 * 1024, 0}
	}
	for i, bs := range bufs {
		bs := bs
		f := readers[(i+int(p.ProgSeed&3))%3]
		name := "Read"
		if !style(res, name, lc, func() {
			rd, e := f.Get(ctx, put.Key)
			if e != nil {
				res.Violate("get-error", lc, "Get: %v", e)
				return
			}
			defer rd.Close()
			var got []byte
			stalls := 0
			for steps := 0; ; steps++ {
				n := bs
				if n == 0 {
					n = 1 + r.Intn(2*p.Leaf)
				}
				buf := make([]byte, n)
				m, e := rd.Read(buf)
				if m < 0 || m > n {
					res.Violate("read-count", lc, "Read(len %d) returned n=%d", n, m)
					return
				}
				got = append(got, buf[:m]...)
				res.Stat("read_calls", 1)
				if e == io.EOF {
					break
				}
				if e != nil {
					res.Violate("read-error", lc, "Read(buffer %d) on intact object failed after %d bytes: %v", n, len(got), e)
					return
				}
				if m == 0 {
					stalls++
					if stalls > 100 {
						res.Violate("read-stall", lc, "Read(buffer %d) returned (0, nil) 100 times at %d of %d bytes", n, len(got), p.Len)
						return
					}
				}
				if len(got) > p.Len+2*p.Leaf {
					break
				}
			}
			if !bytes.Equal(got, content) {
				res.Violate("read-mismatch", "Read|"+lc, "sequential Read(buffer %d): got %d bytes, stored %d bytes; %s", bs, len(got), p.Len, diffAt(got, content))
			}
		}) {
			return // after a panic inside the store the Fs state is undefined (pinned buffers): stop this case
		}
	}

	// --- ReadAt program
	if !style(res, "ReadAt", lc, func() {
		ra, e := fs.GetAt(ctx, put.Key)
		if e != nil {
			res.Violate("get-error", lc, "GetAt: %v", e)
			return
		}
		ra2, e := fs2.GetAt(ctx, put.Key)
		if e != nil {
			res.Violate("get-error", lc, "GetAt: %v", e)
			return
		}
		type q struct {
			off int64
			n   int
		}
		L := int64(p.Len)
		lf := int64(p.Leaf)
		qs := []q{{0, p.Len}, {0, p.Len + 1}, {0, 0}, {L, 1}, {L - 1, 2}, {L + 1, 5}, {L + lf, 3}, {(L/lf + 1) * lf, 1}, {L / lf * lf, p.Leaf}, {L/lf*lf + L%lf, 4},
			{L/lf*lf + (L%lf+lf)/2, 3}, {lf - 1, 2}, {lf, 1}, {0, 3*p.Leaf + 1}}
		nq := 40
		if p.Len > MiB {
			nq = 12
		}
		for i := 0; i < nq; i++ {
			off := r.Int63n(L + 2*lf + 1)
			n := r.Intn(3*p.Leaf + 2)
			if r.Intn(4) == 0 {
				n = r.Intn(16)
			}
			qs = append(qs, q{off, n})
		}
		for i, x := range qs {
			if x.off < 0 {
				continue
			}
			rd := ra
			if i%3 == 2 {
				rd = ra2
			}
			buf := make([]byte, x.n)
			var m int
			var e error
			cls := lc
			if x.off >= L {
				cls = lc + "|offset-at-or-past-eof"
			}
			if !style(res, "ReadAt", cls, func() { m, e = rd.ReadAt(buf, x.off) }) {
				panic(stopCase{})
			}
			res.Stat("readat_calls", 1)
			want := expectAt(x.off, x.n)
			if m < 0 || m > x.n {
				res.Violate("read-count", cls, "ReadAt(len %d, off %d) returned n=%d", x.n, x.off, m)
				continue
			}
			if !bytes.Equal(buf[:m], want) {
				res.Violate("read-mismatch", "ReadAt|"+cls, "ReadAt(len=%d, off=%d) on %d stored bytes returned %d bytes (err=%v), expected %d bytes; %s", x.n, x.off, p.Len, m, e, len(want), diffAt(buf[:m], want))
			}
		}
	}) {
		return
	}

	// --- WriteTo
	for i, kind := range []string{"plain", "writerat"} {
		kind := kind
		f := readers[(i+1+int(p.ProgSeed&3))%3]
		if !style(res, "WriteTo-"+kind, lc, func() {
			rd, e := f.Get(ctx, put.Key)
			if e != nil {
				res.Violate("get-error", lc, "Get: %v", e)
				return
			}
			defer rd.Close()
			wt, isWT := rd.(io.WriterTo)
			if !isWT {
				res.Skipped = "reader is no io.WriterTo"
				return
			}
			var got []byte
			var n int64
			if kind == "plain" {
				w := &cafsh.PlainWriter{}
				n, e = wt.WriteTo(w)
				got = w.B.Bytes()
			} else {
				w := &cafsh.AtWriter{}
				n, e = wt.WriteTo(w)
				got = w.Data
			}
			res.Stat("writeto_calls", 1)
			if e != nil {
				res.Violate("read-error", lc, "WriteTo(%s) on intact object failed: %v", kind, e)
				return
			}
			if n != int64(p.Len) || !bytes.Equal(got, content) {
				res.Violate("read-mismatch", "WriteTo-"+kind+"|"+lc, "WriteTo(%s) delivered %d bytes (returned %d), stored %d; %s", kind, len(got), n, p.Len, diffAt(got, content))
			}
		}) {
			return
		}
	}

	// --- interleaved styles on two readers of one Fs
	if !style(res, "interleaved", lc, func() {
		if p.Len == 0 {
			return
		}
		a, e1 := fs.Get(ctx, put.Key)
		b, e2 := fs.GetAt(ctx, put.Key)
		if e1 != nil || e2 != nil {
			res.Violate("get-error", lc, "Get/GetAt: %v %v", e1, e2)
			return
		}
		defer a.Close()
		var got []byte
		for steps := 0; steps < 100000; steps++ {
			buf := make([]byte, 1+r.Intn(p.Leaf+3))
			m, e := a.Read(buf)
			got = append(got, buf[:m]...)
			off := r.Int63n(int64(p.Len))
			rb := make([]byte, 1+r.Intn(p.Leaf))
			k, _ := b.ReadAt(rb, off)
			if !bytes.Equal(rb[:k], expectAt(off, len(rb))) {
				res.Violate("read-mismatch", "interleaved-ReadAt|"+lc, "interleaved ReadAt(len=%d, off=%d) returned wrong bytes; %s", len(rb), off, diffAt(rb[:k], expectAt(off, len(rb))))
				return
			}
			if e == io.EOF {
				break
			}
			if e != nil {
				res.Violate("read-error", lc, "interleaved Read failed: %v", e)
				return
			}
			if len(got) > p.Len+p.Leaf {
				break
			}
		}
		if !bytes.Equal(got, content) {
			res.Violate("read-mismatch", "interleaved-Read|"+lc, "interleaved Read: got %d bytes, stored %d; %s", len(got), p.Len, diffAt(got, content))
		}
	}) {
		return
	}

	// --- concurrent ReadAt on one Fs
	if p.Conc > 0 {
		var wg sync.WaitGroup
		var mu sync.Mutex
		for g := 0; g < p.Conc; g++ {
			wg.Add(1)
			go func(g int) {
				defer wg.Done()
				rr := rand.New(rand.NewSource(p.ProgSeed + int64(g)))
				local := &drv.Result{}
				style(local, "concurrent-ReadAt", lc, func() {
					ra, e := fs.GetAt(ctx, put.Key)
					if e != nil {
						local.Violate("get-error", lc, "GetAt: %v", e)
						return
					}
					for i := 0; i < 150; i++ {
						off := rr.Int63n(int64(p.Len))
						buf := make([]byte, 1+rr.Intn(2*p.Leaf))
						m, e := ra.ReadAt(buf, off)
						want := expectAt(off, len(buf))
						if !bytes.Equal(buf[:m], want) {
							local.Violate("read-mismatch", "concurrent-ReadAt|"+lc, "goroutine %d: ReadAt(len=%d, off=%d) returned %d bytes err=%v, expected %d; %s", g, len(buf), off, m, e, len(want), diffAt(buf[:m], want))
							return
						}
					}
				})
				mu.Lock()
				res.Violations = append(res.Violations, local.Violations...)
				res.Stat("concurrent_readat_calls", 150)
				mu.Unlock()
			}(g)
		}
		wg.Wait()
	}
	res.Sample = map[string]interface{}{"params": p, "root_key": put.Key.String()[:16] + "…", "leaves": wantLeaves}
}

type stopCase struct{}

func diffAt(got, want []byte) string {
	n := len(got)
	if len(want) < n {
		n = len(want)
	}
	for i := 0; i < n; i++ {
		if got[i] != want[i] {
			return fmt.Sprintf("first difference at byte %d (got 0x%02x, stored 0x%02x)", i, got[i], want[i])
		}
	}
	if len(got) != len(want) {
		return fmt.Sprintf("common prefix of %d bytes, lengths %d vs %d", n, len(got), len(want))
	}
	return "equal"
}

func TestC01(t *testing.T) {
	drv.Main(t, drv.Driver{ID: "C01", Gen: gen01, Run: run01, CaseTimeout: 15 * time.Minute})
}
