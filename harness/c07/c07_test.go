package c07

import (
	"fmt"
	"math/rand"
	"sort"
	"strings"
	"testing"
	"time"

	context2 "github.com/oneconcern/datamon/pkg/context"
	"github.com/oneconcern/datamon/pkg/core"
	"github.com/oneconcern/datamon/pkg/model"

	"verifharness/cafsh"
	"verifharness/coreh"
	"verifharness/drv"
	"verifharness/gen"
	"verifharness/memstore"
)

// C07 — listings are complete, exact and ordered.
//
// Oracle: a listing, as a sequence, has no duplicates and its set equals the set built from what the
// create operations returned. Order is checked where the documented order is unambiguous: bundles by ID;
// diamonds and splits by start time in scenarios where they were created sequentially with increasing
// IDs; repos by name when all names are alphanumeric. Label order is not checked.

type params struct {
	Kind      string `json:"kind"` // repos | bundles | labels | diamonds
	N         int    `json:"n"`
	Seed      int64  `json:"seed"`
	LazyPage  bool   `json:"lazy_last_page"`
	BigSplit  bool   `json:"split_with_1001_files"`
	AlnumOnly bool   `json:"alnum_names_only"`
}

func gen07(seed int64, tier string) []drv.Case {
	r := gen.Rand(seed, "c07")
	var cs []drv.Case
	add := func(p params) {
		p.Seed = r.Int63()
		p.LazyPage = r.Intn(2) == 0
		cs = append(cs, drv.Case{ID: fmt.Sprintf("%s-n%d-%d", p.Kind, p.N, len(cs)), Class: p.Kind, Params: drv.MustJSON(p)})
	}
	if tier == "thorough" {
		for _, n := range []int{0, 1, 2, 3, 7, 20, 60} {
			add(params{Kind: "repos", N: n})
			add(params{Kind: "repos", N: n, AlnumOnly: true})
		}
		for _, n := range []int{0, 1, 2, 5, 30, 200, 1023, 1024, 1025, 2500} {
			add(params{Kind: "bundles", N: n})
		}
		for _, n := range []int{0, 1, 2, 9, 50, 300} {
			add(params{Kind: "labels", N: n})
		}
		for i, n := range []int{0, 1, 2, 4, 9, 20, 40, 12, 6, 3} {
			add(params{Kind: "diamonds", N: n, BigSplit: i%3 == 1})
		}
		for i := 0; i < 60; i++ {
			k := []string{"repos", "bundles", "labels", "diamonds"}[i%4]
			add(params{Kind: k, N: r.Intn(40), AlnumOnly: r.Intn(2) == 0})
		}
		return cs
	}
	for _, n := range []int{0, 1, 5, 23} {
		add(params{Kind: "repos", N: n, AlnumOnly: n == 23})
	}
	for _, n := range []int{0, 1, 9, 120} {
		add(params{Kind: "bundles", N: n})
	}
	for _, n := range []int{0, 2, 40} {
		add(params{Kind: "labels", N: n})
	}
	for i, n := range []int{0, 1, 4, 7, 12} {
		add(params{Kind: "diamonds", N: n, BigSplit: i == 2})
	}
	for i := 0; i < 28; i++ {
		k := []string{"repos", "bundles", "labels", "diamonds"}[i%4]
		add(params{Kind: k, N: 1 + r.Intn(25), AlnumOnly: r.Intn(2) == 0})
	}
	return cs
}

func batchSizes(n int) []int {
	m := map[int]bool{}
	var out []int
	for _, b := range []int{1, 2, 3, 7, n - 1, n, n + 1, 1024, 2048} {
		if b >= 1 && !m[b] {
			m[b] = true
			out = append(out, b)
		}
	}
	return out
}

type lister struct {
	what string
	list func(opts ...core.Option) ([]string, error) // returns identities in listing order
}

func run07(c drv.Case, res *drv.Result) {
	var p params
	drv.Params(c, &p)
	cafsh.InstallWriteProgressMonitor()
	r := rand.New(rand.NewSource(p.Seed))
	env := coreh.NewEnv(memstore.Config{LazyLastPage: p.LazyPage})
	st := env.Stores(nil)
	must := func(err error) {
		if err != nil {
			panic(fmt.Sprintf("set-up failed: %v", err))
		}
	}
	var listers []lister
	var want []string // in documented order when orderChecked
	orderChecked := true
	empty := env.MemConsumable("empty", coreh.Tree{})

	compare := func(l lister, batch, conc int, got []string, err error) bool {
		res.Stat("listings_compared", 1)
		sig := fmt.Sprintf("%s|batch<n=%v", l.what, batch < len(want))
		if err != nil {
			res.Violate("listing-failed", sig, "%s(batch=%d, concurrency=%d) over %d objects failed: %v", l.what, batch, conc, len(want), err)
			return false
		}
		seen := map[string]int{}
		for _, g := range got {
			seen[g]++
		}
		ws := map[string]bool{}
		for _, w := range want {
			ws[w] = true
		}
		var missing, extra, dup []string
		for _, w := range want {
			if seen[w] == 0 {
				missing = append(missing, w)
			}
		}
		for g, k := range seen {
			if !ws[g] {
				extra = append(extra, g)
			}
			if k > 1 {
				dup = append(dup, g)
			}
		}
		if len(missing)+len(extra)+len(dup) > 0 {
			var cl []string
			if len(missing) > 0 {
				cl = append(cl, "missing")
			}
			if len(extra) > 0 {
				cl = append(cl, "extra")
			}
			if len(dup) > 0 {
				cl = append(cl, "duplicates")
			}
			res.Violate("listing-incomplete", strings.Join(cl, "+")+"|"+sig, "%s(batch=%d, concurrency=%d): %d objects exist, listing returned %d; missing %v extra %v duplicated %v",
				l.what, batch, conc, len(want), len(got), head(missing), head(extra), head(dup))
			return false
		}
		if orderChecked && strings.Join(got, "\n") != strings.Join(want, "\n") {
			res.Violate("listing-order", sig, "%s(batch=%d, concurrency=%d): right set, wrong order: got %v…, documented order %v…", l.what, batch, conc, head(got), head(want))
			return false
		}
		return true
	}

	switch p.Kind {
	case "repos":
		pool := []string{"a", "ab", "abc", "b", "a-b", "a-", "ab-c", "é", "a0", "0", "z9", "A", "Ab"}
		names := map[string]bool{}
		for len(names) < p.N {
			var nm string
			if len(names) < len(pool) && r.Intn(2) == 0 {
				nm = pool[r.Intn(len(pool))]
			} else {
				nm = fmt.Sprintf("r%s%d", []string{"", "-", "x"}[r.Intn(3)], r.Intn(100000))
			}
			if p.AlnumOnly {
				nm = strings.Map(func(c rune) rune {
					if c == '-' || c > 127 {
						return 'q'
					}
					return c
				}, nm)
			}
			names[nm] = true
		}
		var order []string
		for nm := range names {
			order = append(order, nm)
		}
		r.Shuffle(len(order), func(i, j int) { order[i], order[j] = order[j], order[i] })
		for _, nm := range order {
			must(env.CreateRepo(nil, nm))
			if r.Intn(3) == 0 { // other metadata around
				_, err := env.Upload(nil, nm, empty.For(nil), coreh.UploadOpts{})
				must(err)
			}
		}
		want = append([]string(nil), order...)
		sort.Strings(want)
		orderChecked = p.AlnumOnly
		listers = []lister{
			{"ListRepos", func(o ...core.Option) ([]string, error) {
				rs, err := core.ListRepos(st, o...)
				var out []string
				for _, x := range rs {
					out = append(out, x.Name)
				}
				return out, err
			}},
			{"ListReposApply", func(o ...core.Option) ([]string, error) {
				var out []string
				err := core.ListReposApply(st, func(x model.RepoDescriptor) error { out = append(out, x.Name); return nil }, o...)
				return out, err
			}},
		}
	case "bundles":
		for _, nm := range []string{"a", "ab", "a-b"} {
			must(env.CreateRepo(nil, nm))
		}
		few := env.MemConsumable("few", coreh.Tree{"x/1": []byte("one"), "x/2": []byte("two"), "3": []byte("three")})
		for i := 0; i < p.N; i++ {
			src := empty
			if r.Intn(8) == 0 {
				src = few
			}
			if r.Intn(9) == 0 {
				// the leftover of an interrupted upload (file lists, no descriptor) sits among the bundles: it is not a bundle
				va := memstore.NewActor(fmt.Sprint("victim", i)).CrashWhen(func(c memstore.Call) bool { return strings.HasSuffix(c.Key, "/bundle.yaml") }, 1, false)
				done := make(chan struct{})
				go func() {
					_, _ = env.Upload(va, "a", few.For(nil), coreh.UploadOpts{Concurrency: 1})
					close(done)
				}()
				select {
				case <-va.Dead():
					res.Stat("leftovers_of_interrupted_uploads", 1)
				case <-done:
				}
			}
			id, err := env.Upload(nil, "a", src.For(nil), coreh.UploadOpts{Concurrency: 4})
			must(err)
			want = append(want, id)
			if r.Intn(10) == 0 { // neighbours whose names share the prefix
				_, err := env.Upload(nil, []string{"ab", "a-b"}[r.Intn(2)], empty.For(nil), coreh.UploadOpts{})
				must(err)
			}
		}
		sort.Strings(want)
		listers = []lister{
			{"ListBundles", func(o ...core.Option) ([]string, error) {
				bs, err := core.ListBundles("a", st, o...)
				var out []string
				for _, x := range bs {
					out = append(out, x.ID)
				}
				return out, err
			}},
			{"ListBundlesApply", func(o ...core.Option) ([]string, error) {
				var out []string
				err := core.ListBundlesApply("a", st, func(x model.BundleDescriptor) error { out = append(out, x.ID); return nil }, o...)
				return out, err
			}},
		}
	case "labels":
		for _, nm := range []string{"a", "ab", "a-b"} {
			must(env.CreateRepo(nil, nm))
		}
		var ids []string
		for i := 0; i < 3; i++ {
			id, err := env.Upload(nil, "a", empty.For(nil), coreh.UploadOpts{})
			must(err)
			ids = append(ids, id)
		}
		idb, err := env.Upload(nil, "ab", empty.For(nil), coreh.UploadOpts{})
		must(err)
		names := map[string]bool{}
		for len(names) < p.N {
			names[fmt.Sprintf("%s%d", []string{"l", "v", "prod-", "l_", "é"}[r.Intn(5)], r.Intn(100000))] = true
		}
		for nm := range names {
			id := ids[r.Intn(len(ids))]
			must(env.SetLabel(nil, "a", nm, id))
			want = append(want, nm+"="+id)
			if r.Intn(6) == 0 {
				must(env.SetLabel(nil, "ab", nm, idb))
			}
		}
		sort.Strings(want)
		orderChecked = false
		listers = []lister{
			{"ListLabels", func(o ...core.Option) ([]string, error) {
				ls, err := core.ListLabels("a", st, o...)
				var out []string
				for _, x := range ls {
					out = append(out, x.Name+"="+x.BundleID)
				}
				return out, err
			}},
			{"ListLabelsApply", func(o ...core.Option) ([]string, error) {
				var out []string
				err := core.ListLabelsApply("a", st, func(x model.LabelDescriptor) error { out = append(out, x.Name+"="+x.BundleID); return nil }, o...)
				return out, err
			}},
		}
	case "diamonds":
		// the repository and the splits may bear names that look like the state files of diamonds and splits
		drepo := []string{"a", "a", "split-a", "diamond-a"}[r.Intn(4)]
		for _, nm := range []string{"ab", drepo} {
			must(env.CreateRepo(nil, nm))
		}
		base := time.Now().Add(-time.Hour)
		small := env.MemConsumable("small", coreh.Tree{"f1": []byte("1"), "d/f2": []byte("22")})
		var bigSrc *memstore.Store
		if p.BigSplit {
			bigSrc = env.MemConsumable("big", coreh.GenTree(r, p.Seed, 1001, coreh.TreeOpt{Tiny: true}).Tree())
		}
		type dinfo struct {
			id     string
			splits []string
		}
		var ds []dinfo
		for i := 0; i < p.N; i++ {
			id := coreh.KSUIDAt(base.Add(time.Duration(i)*time.Second), uint64(r.Int63()))
			d, err := env.CreateDiamond(nil, drepo, id)
			must(err)
			di := dinfo{id: d.DiamondID}
			ns := r.Intn(7)
			done := 0
			for j := 0; j < ns; j++ {
				sid := fmt.Sprintf([]string{"s-%02d", "split-%02d", "diamond-%02d"}[i%3], j) // one naming scheme per diamond: key order == creation order
				state := "done"
				if r.Intn(5) == 0 { // a split that is only running
					state = "running"
					_, err := env.CreateSplit(nil, drepo, id, sid, small.For(nil), 4)
					must(err)
				} else {
					src := small
					if bigSrc != nil && i == 0 && j == 0 {
						src = bigSrc
					}
					_, err := env.SplitUpload(nil, drepo, id, sid, src.For(nil), 4)
					must(err)
					done++
				}
				di.splits = append(di.splits, sid+"="+state)
			}
			dstate := "initialized"
			switch x := r.Intn(4); {
			case x == 0:
				must(env.Cancel(nil, drepo, id))
				dstate = "canceled"
			case x == 1 && done > 0:
				_, err := env.Commit(nil, drepo, id, model.IgnoreConflicts)
				must(err)
				dstate = "done"
			}
			di.id = di.id + "=" + dstate
			ds = append(ds, di)
			if r.Intn(5) == 0 {
				_, err := env.CreateDiamond(nil, "ab", "")
				must(err)
			}
		}
		for _, d := range ds {
			want = append(want, d.id)
		}
		listers = []lister{
			{"ListDiamonds", func(o ...core.Option) ([]string, error) {
				xs, err := core.ListDiamonds(drepo, st, o...)
				var out []string
				for _, x := range xs {
					out = append(out, x.DiamondID+"="+fmt.Sprint(x.State))
				}
				return out, err
			}},
			{"ListDiamondsApply", func(o ...core.Option) ([]string, error) {
				var out []string
				err := core.ListDiamondsApply(drepo, st, func(x model.DiamondDescriptor) error {
					out = append(out, x.DiamondID+"="+fmt.Sprint(x.State))
					return nil
				}, o...)
				return out, err
			}},
		}
		// splits of up to 3 diamonds are listed as well
		defer func(ds []dinfo, st context2.Stores) {
			for k, d := range ds {
				if k >= 3 && k != len(ds)-1 {
					continue
				}
				want = d.splits
				ls := []lister{
					{"ListSplits", func(o ...core.Option) ([]string, error) {
						xs, err := core.ListSplits(drepo, strings.SplitN(d.id, "=", 2)[0], st, o...)
						var out []string
						for _, x := range xs {
							out = append(out, x.SplitID+"="+fmt.Sprint(x.State))
						}
						return out, err
					}},
					{"ListSplitsApply", func(o ...core.Option) ([]string, error) {
						var out []string
						err := core.ListSplitsApply(drepo, strings.SplitN(d.id, "=", 2)[0], st, func(x model.SplitDescriptor) error {
							out = append(out, x.SplitID+"="+fmt.Sprint(x.State))
							return nil
						}, o...)
						return out, err
					}},
				}
				for _, l := range ls {
					for _, b := range batchSizes(len(want)) {
						conc := []int{1, 2, 32}[r.Intn(3)]
						got, err := l.list(core.BatchSize(b), core.ConcurrentList(conc))
						if !compare(l, b, conc, got, err) {
							break
						}
					}
				}
			}
		}(ds, st)
	}

	for _, l := range listers {
		ok := true
		for _, b := range batchSizes(len(want)) {
			for _, conc := range []int{1, 2, 32} {
				if len(want) > 500 && conc == 2 {
					continue
				}
				got, err := l.list(core.BatchSize(b), core.ConcurrentList(conc))
				if !compare(l, b, conc, got, err) {
					ok = false
					break
				}
			}
			if !ok {
				break
			}
		}
	}
	res.Nontrivial = p.N >= 1
	res.Canon = string(c.Params)
	res.Seen("object_kind", p.Kind)
	res.Stat("objects_created_"+p.Kind, int64(p.N))
	res.Sample = map[string]interface{}{"kind": p.Kind, "objects": p.N, "lazy_last_page": p.LazyPage, "order_checked": orderChecked, "first": head(want), "batch_sizes": batchSizes(p.N)}
}

func head(xs []string) []string {
	if len(xs) > 3 {
		return xs[:3]
	}
	return xs
}

func TestC07(t *testing.T) {
	drv.Main(t, drv.Driver{ID: "C07", Gen: gen07, Run: run07, CaseTimeout: 15 * time.Minute})
}
