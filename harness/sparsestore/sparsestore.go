//go:build verif
// +build verif

// Package sparsestore is a minimal object store for very large, mostly-zero objects: what is Put is kept as
// (non-zero prefix, total size), and objects can be declared by a generator function instead of bytes. It lets
// a check drive files of 4 GiB and more through the real upload, download and mount code without holding
// gigabytes in memory. No fault injection, no event log: those belong to memstore.
package sparsestore

import (
	"context"
	"crypto/sha256"
	"encoding/binary"
	"io"
	"io/ioutil"
	"sort"
	"strings"
	"sync"
	"time"

	"github.com/oneconcern/datamon/pkg/storage"
	"github.com/oneconcern/datamon/pkg/storage/status"
)

// Gen fills p with the bytes of an object starting at off (len(p) never crosses the end of the object).
type Gen func(off int64, p []byte)

type object struct {
	prefix  []byte // kept bytes; the rest up to size is zeros (gen == nil)
	gen     Gen
	size    int64
	updated time.Time
}

// Store implements storage.Store.
type Store struct {
	name string
	mu   sync.Mutex
	objs map[string]*object
	// BytesPut / BytesKept: what writers sent and what is actually held
	BytesPut, BytesKept int64
}

// New returns an empty store.
func New(name string) *Store { return &Store{name: name, objs: map[string]*object{}} }

var _ storage.Store = &Store{}

// AddVirtual declares an object of the given size whose bytes come from gen.
func (s *Store) AddVirtual(key string, size int64, gen Gen) {
	s.mu.Lock()
	defer s.mu.Unlock()
	s.objs[key] = &object{gen: gen, size: size, updated: time.Now()}
}

func (s *Store) String() string { return "sparsestore://" + s.name }

func (s *Store) get(key string) (*object, error) {
	s.mu.Lock()
	defer s.mu.Unlock()
	o, ok := s.objs[key]
	if !ok {
		return nil, status.ErrNotExists
	}
	return o, nil
}

func (s *Store) Has(_ context.Context, key string) (bool, error) {
	_, err := s.get(key)
	return err == nil, nil
}

func (o *object) readAt(p []byte, off int64) (int, error) {
	if off >= o.size {
		return 0, io.EOF
	}
	n := len(p)
	if int64(n) > o.size-off {
		n = int(o.size - off)
	}
	q := p[:n]
	if o.gen != nil {
		o.gen(off, q)
	} else {
		for i := range q {
			q[i] = 0
		}
		if off < int64(len(o.prefix)) {
			copy(q, o.prefix[off:])
		}
	}
	if n < len(p) {
		return n, io.EOF
	}
	return n, nil
}

type reader struct {
	o   *object
	off int64
}

func (r *reader) Read(p []byte) (int, error) {
	if r.off >= r.o.size {
		return 0, io.EOF
	}
	if len(p) > 1<<20 {
		p = p[:1<<20]
	}
	n, _ := r.o.readAt(p, r.off)
	r.off += int64(n)
	return n, nil
}

func (r *reader) Close() error { return nil }

type readerAt struct{ o *object }

func (r readerAt) ReadAt(p []byte, off int64) (int, error) { return r.o.readAt(p, off) }

func (s *Store) Get(_ context.Context, key string) (io.ReadCloser, error) {
	o, err := s.get(key)
	if err != nil {
		return nil, err
	}
	return &reader{o: o}, nil
}

func (s *Store) GetAt(_ context.Context, key string) (io.ReaderAt, error) {
	o, err := s.get(key)
	if err != nil {
		return nil, err
	}
	return readerAt{o}, nil
}

func (s *Store) GetAttr(_ context.Context, key string) (storage.Attributes, error) {
	o, err := s.get(key)
	if err != nil {
		return storage.Attributes{}, err
	}
	return storage.Attributes{Created: o.updated, Updated: o.updated, Size: o.size}, nil
}

func (s *Store) Touch(_ context.Context, key string) error {
	o, err := s.get(key)
	if err != nil {
		return err
	}
	s.mu.Lock()
	o.updated = time.Now()
	s.mu.Unlock()
	return nil
}

func (s *Store) Put(_ context.Context, key string, rdr io.Reader, noOverwrite bool) error {
	b, err := ioutil.ReadAll(rdr)
	if err != nil {
		return err
	}
	end := len(b)
	for end > 0 && b[end-1] == 0 {
		end--
	}
	s.mu.Lock()
	defer s.mu.Unlock()
	if _, ok := s.objs[key]; ok && noOverwrite {
		return status.ErrExists
	}
	s.objs[key] = &object{prefix: append([]byte(nil), b[:end]...), size: int64(len(b)), updated: time.Now()}
	s.BytesPut += int64(len(b))
	s.BytesKept += int64(end)
	return nil
}

func (s *Store) Delete(_ context.Context, key string) error {
	s.mu.Lock()
	defer s.mu.Unlock()
	if _, ok := s.objs[key]; !ok {
		return status.ErrNotExists
	}
	delete(s.objs, key)
	return nil
}

func (s *Store) Clear(context.Context) error {
	s.mu.Lock()
	defer s.mu.Unlock()
	s.objs = map[string]*object{}
	return nil
}

func (s *Store) Keys(context.Context) ([]string, error) {
	s.mu.Lock()
	defer s.mu.Unlock()
	ks := make([]string, 0, len(s.objs))
	for k := range s.objs {
		ks = append(ks, k)
	}
	sort.Strings(ks)
	return ks, nil
}

// KeysPrefix: start-key paging (the page token is the first key of the next page), delimiter roll-up as GCS does.
func (s *Store) KeysPrefix(ctx context.Context, pageToken, prefix, delimiter string, count int) ([]string, string, error) {
	all, _ := s.Keys(ctx)
	var out []string
	seen := map[string]bool{}
	for _, k := range all {
		if !strings.HasPrefix(k, prefix) || k < pageToken {
			continue
		}
		item := k
		if delimiter != "" {
			if i := strings.Index(k[len(prefix):], delimiter); i >= 0 {
				item = k[:len(prefix)+i+len(delimiter)]
			}
		}
		if seen[item] {
			continue
		}
		if len(out) == count {
			return out, item, nil
		}
		seen[item] = true
		out = append(out, item)
	}
	return out, "", nil
}

// MarkedLeaves is the content used for huge files: every leaf (of `leaf` bytes) starts with 16 non-zero bytes derived
// from (seed, leaf index) and is zero otherwise, so a leaf put at the wrong offset, dropped or duplicated is visible
// from a few bytes around each leaf boundary.
func MarkedLeaves(seed int64, leaf int64) Gen {
	return func(off int64, p []byte) {
		for i := range p {
			p[i] = 0
		}
		for li := off / leaf; li*leaf < off+int64(len(p)); li++ {
			var b [16]byte
			binary.BigEndian.PutUint64(b[:8], uint64(seed))
			binary.BigEndian.PutUint64(b[8:], uint64(li))
			m := sha256.Sum256(b[:])
			for j := int64(0); j < 16; j++ {
				if at := li*leaf + j - off; at >= 0 && at < int64(len(p)) {
					p[at] = m[j] | 1
				}
			}
		}
	}
}

// Len returns the number of objects.
func (s *Store) Len() int { s.mu.Lock(); defer s.mu.Unlock(); return len(s.objs) }
