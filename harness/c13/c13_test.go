package c13

import (
	"encoding/hex"
	"fmt"
	"hash/fnv"
	"os"
	"sort"
	"strings"
	"sync"
	"testing"
	"time"

	context2 "github.com/oneconcern/datamon/pkg/context"
	"github.com/oneconcern/datamon/pkg/core"

	"verifharness/cafsh"
	"verifharness/coreh"
	"verifharness/drv"
	"verifharness/gen"
	"verifharness/memstore"
)

// C13 — purging never deletes data that a committed bundle needs.
//
// Safety oracle only: whenever the index build (possibly crashed and resumed, possibly under transient
// store faults) and delete-unused both REPORT SUCCESS, every protected bundle still downloads with its
// recorded tree. Protected = bundles whose descriptor landed before the first build started + bundles
// whose upload started after that and returned nil. A conservation analysis over the store's
// linearisation log names the culprit key and why it was unprotected (this is the violation signature).

type upl struct {
	Ctx   string            `json:"ctx"`
	Repo  string            `json:"repo"`
	Files map[string]string `json:"files"` // path -> content label: cK (pool), vK (shares the full leaves of cK), nJ (fresh)
}

type params struct {
	Family string `json:"family"` // plain | crash | fault | gate-build | gate-delete | delete-crash
	Leaf   uint32 `json:"leaf"`
	Seed   int64  `json:"seed"`
	Pre    []upl  `json:"pre"`    // uploads before anything is removed
	Doomed upl    `json:"doomed"` // upload into repo rdel, which is deleted before the build (its private blobs become orphans)
	Squash bool   `json:"squash"` // additionally squash r1 before the build
	Chunk  uint64 `json:"chunk"`
	Fast   bool   `json:"fast_uploader"`
	// uploads that start after the first build started: Mid run between build and delete-unused; Gap between a
	// crashed build and its resume; During runs concurrently (gate families).
	Mid    []upl `json:"mid,omitempty"`
	Gap    []upl `json:"gap,omitempty"`
	During *upl  `json:"during,omitempty"`
	// fault family
	FaultClasses []string `json:"fault_classes,omitempty"`
	FaultTimes   int      `json:"fault_times,omitempty"`
	// enumeration bounds
	MaxPoints int `json:"max_points,omitempty"`
	// GapParked: the first gap upload (started after the crash of the first build) is held inside the write of its
	// descriptor while the resumed build runs: it commits only after the resumed scan
	GapParked bool `json:"gap_upload_commits_after_the_resume,omitempty"`
	Second    bool `json:"second_crash,omitempty"` // crash the resumed build as well (PRNG point)
}

var pool = 8

func genFiles(r interface{ Intn(int) int }, labels []string, n int) map[string]string {
	m := map[string]string{}
	for j := 0; j < n; j++ {
		m[fmt.Sprintf("d%d/f%d", r.Intn(2), r.Intn(6))] = labels[r.Intn(len(labels))]
	}
	return m
}

func gen13(seed int64, tier string) []drv.Case {
	r := gen.Rand(seed, "c13")
	var cs []drv.Case
	counts := map[string]int{"plain": 24, "crash": 8, "fault": 16, "gate-build": 4, "gate-delete": 6, "delete-crash": 3}
	maxPoints := 14
	if tier == "thorough" {
		counts = map[string]int{"plain": 400, "crash": 120, "fault": 160, "gate-build": 60, "gate-delete": 90, "delete-crash": 40}
		maxPoints = 1000
	}
	var poolLabels []string
	for k := 0; k < pool; k++ {
		poolLabels = append(poolLabels, fmt.Sprintf("c%d", k))
	}
	fams := []string{"plain", "crash", "fault", "gate-build", "gate-delete", "delete-crash"}
	for _, fam := range fams {
		for i := 0; i < counts[fam]; i++ {
			p := params{Family: fam, Leaf: uint32([]int{64, 4096}[r.Intn(2)]), Seed: r.Int63(), MaxPoints: maxPoints}
			where := func() (string, string) {
				if r.Intn(4) == 0 {
					return "x", "r3"
				}
				return "main", []string{"r1", "r2"}[r.Intn(2)]
			}
			for j := 0; j < 2+r.Intn(4); j++ {
				c, rp := where()
				p.Pre = append(p.Pre, upl{Ctx: c, Repo: rp, Files: genFiles(r, poolLabels, 1+r.Intn(3))})
			}
			p.Doomed = upl{Ctx: "main", Repo: "rdel", Files: genFiles(r, poolLabels, 1+r.Intn(3))}
			// contents that only the doomed repo holds: certainly unreferenced once it is deleted
			p.Doomed.Files["d0/o"] = "o0"
			if r.Intn(2) == 0 {
				p.Doomed.Files["d1/o"] = "o1"
			}
			p.Squash = r.Intn(3) == 0
			p.Chunk = uint64([]int{1, 2, 3, 5, 7, 20, 1000}[r.Intn(7)])
			if fam == "crash" {
				p.Chunk = uint64([]int{2, 3, 5, 7, 11}[r.Intn(5)]) // several chunks, so that a crash leaves a partial index
				if i%2 == 0 {
					p.Chunk = 1 // one chunk per key: a crash may leave 10 or more chunks behind (chunk-10 lists before chunk-2)
				}
				p.Second = i%3 == 2
			}
			p.Fast = r.Intn(2) == 0
			// later uploads prefer what the doomed repo held (orphans and their variants)
			var late []string
			for _, l := range p.Doomed.Files {
				if l[0] == 'o' {
					late = append(late, l, l, l, "w"+l[1:])
				} else {
					late = append(late, l, "v"+l[1:])
				}
			}
			late = append(late, poolLabels[r.Intn(pool)], fmt.Sprintf("n%d", r.Intn(4)), fmt.Sprintf("n%d", r.Intn(4)))
			mk := func() upl {
				c, rp := where()
				return upl{Ctx: c, Repo: rp, Files: genFiles(r, late, 1+r.Intn(3))}
			}
			for j := 0; j < r.Intn(3); j++ {
				p.Mid = append(p.Mid, mk())
			}
			switch fam {
			case "plain":
				if len(p.Mid) == 0 {
					p.Mid = append(p.Mid, mk())
				}
			case "crash":
				if r.Intn(2) == 0 || i%4 == 1 {
					p.Gap = append(p.Gap, mk())
				}
				p.GapParked = i%4 == 1
			case "fault":
				build := []string{"blob-get", "meta-get-filelist", "meta-get-descriptor", "index-put", "index-delete", "meta-list",
					"blob-get-cut", "meta-get-filelist-cut", "meta-get-descriptor-cut", "meta-get-descriptor-cut"}
				del := []string{"index-list", "index-get", "blob-list", "blob-getattr", "blob-delete", "index-get-cut"}
				p.FaultClasses = []string{build[r.Intn(len(build))], del[r.Intn(len(del))]}
				if i%4 == 0 {
					p.FaultClasses = []string{"blob-getattr"} // the blob attribute reads of delete-unused
				}
				if i%4 == 1 {
					p.FaultClasses = []string{"index-put", "blob-get"}
				}
				p.FaultTimes = 1 + r.Intn(2)
				if len(p.Mid) == 0 {
					p.Mid = append(p.Mid, mk())
				}
			case "gate-build", "gate-delete":
				u := mk()
				if i%2 == 0 {
					u.Files["d0/reused"] = "o0"
				}
				p.During = &u
			}
			cs = append(cs, drv.Case{ID: fmt.Sprintf("%s-%d", fam, i), Class: fam, Params: drv.MustJSON(p)})
		}
	}
	return cs
}

// ---------------------------------------------------------------------------------------------------

type ctxs struct {
	main *coreh.Env
	x    *coreh.Env
}

func (c *ctxs) env(name string) *coreh.Env {
	if name == "x" {
		return c.x
	}
	return c.main
}

func (c *ctxs) extra(a *memstore.Actor) []context2.Stores {
	return []context2.Stores{c.main.ExtraStores(a, "x")}
}

func mkctx(main *coreh.Env) *ctxs { return &ctxs{main: main, x: main.ExtraEnv("x")} }

type bref struct {
	coreh.BundleRef
	tree    coreh.Tree
	keys    map[string]bool
	late    bool // uploaded after the first build started
	reused  int  // late upload: number of its keys that were unreferenced blobs when it started
	kinds   string
	started int64 // store sequence number when the upload started
}

type scen struct {
	p     params
	res   *drv.Result
	nsrc  int
	srcMu sync.Mutex
}

func (s *scen) content(label string) []byte {
	var k int
	fmt.Sscanf(label[1:], "%d", &k)
	leaf := int(s.p.Leaf)
	switch label[0] {
	case 'c':
		return gen.Bytes(s.p.Seed, label, (k%6)*leaf+1+(k*37)%leaf)
	case 'o':
		return gen.Bytes(s.p.Seed, label, (k+2)*leaf+7)
	case 'w': // shares the full leaves of oK
		base := gen.Bytes(s.p.Seed, fmt.Sprintf("o%d", k), (k+2)*leaf+7)
		return append(append([]byte{}, base[:(k+2)*leaf]...), gen.Bytes(s.p.Seed, label, 9)...)
	case 'v': // shares every full leaf of cK, then differs
		base := gen.Bytes(s.p.Seed, fmt.Sprintf("c%d", k), (k%6)*leaf+1+(k*37)%leaf)
		full := (k % 6) * leaf
		return append(append([]byte{}, base[:full]...), gen.Bytes(s.p.Seed, label, 1+(k*11)%leaf)...)
	default:
		return gen.Bytes(s.p.Seed, label, (k%3)*leaf+5+k)
	}
}

func (s *scen) tree(u upl) coreh.Tree {
	t := coreh.Tree{}
	for pth, l := range u.Files {
		t[pth] = s.content(l)
	}
	return t
}

// upload runs one upload with the given actor and returns the bundle reference (keys computed at once,
// while all its blobs are necessarily present).
func (s *scen) upload(cx *ctxs, a *memstore.Actor, u upl, late bool, orphans map[string]bool) (*bref, error) {
	e := cx.env(u.Ctx)
	t := s.tree(u)
	s.srcMu.Lock()
	s.nsrc++
	src := fmt.Sprint("src", s.nsrc)
	s.srcMu.Unlock()
	if core.RepoExists(u.Repo, e.Stores(nil)) != nil {
		if err := e.CreateRepo(nil, u.Repo); err != nil {
			return nil, err
		}
	}
	started := cx.main.W.Seq()
	id, err := e.Upload(a, u.Repo, cx.main.MemConsumable(src, t).For(nil), coreh.UploadOpts{Leaf: s.p.Leaf, Concurrency: 3})
	if err != nil {
		return nil, err
	}
	b := &bref{BundleRef: coreh.BundleRef{Ctx: u.Ctx, Repo: u.Repo, ID: id}, tree: t, late: late, started: started}
	return b, nil
}

// keysFromStore computes the keys a bundle needs from its entries and root blobs.
func keysOf(cx *ctxs, b *bref) (map[string]bool, error) {
	return cx.env(b.Ctx).KeysOfBundle(b.Repo, b.ID)
}

type outcome struct {
	err  error
	died bool
}

// runOrDie runs f until it returns or its actor dies.
func runOrDie(a *memstore.Actor, f func() error) outcome {
	done := make(chan error, 1)
	go func() { done <- f() }()
	select {
	case err := <-done:
		return outcome{err: err}
	case <-a.Dead():
		return outcome{died: true}
	}
}

func (s *scen) buildFn(cx *ctxs, a *memstore.Actor, resume bool) func() error {
	return func() error {
		kv := coreh.KVDir()
		defer os.RemoveAll(kv)
		opts := coreh.PurgeOpts(kv, cx.extra(a), s.p.Chunk, s.p.Fast)
		if resume {
			opts = append(opts, core.WithPurgeResumeIndex(true))
		}
		_, err := core.PurgeBuildReverseIndex(cx.main.Stores(a), opts...)
		return err
	}
}

func (s *scen) deleteFn(cx *ctxs, a *memstore.Actor) func() error {
	return func() error {
		kv := coreh.KVDir()
		defer os.RemoveAll(kv)
		_, err := core.PurgeDeleteUnused(cx.main.Stores(a), coreh.PurgeOpts(kv, nil, 0, false)...)
		return err
	}
}

// faultScript fails the first `times` calls of every (store, op, key) in the given classes.
func faultScript(classes []string, times int, seed int64) memstore.Fault {
	seen := map[string]int{}
	has := func(c string) bool {
		for _, x := range classes {
			if x == c {
				return true
			}
		}
		return false
	}
	return func(c memstore.Call) error {
		cls := callClass(c)
		if cls == "" || !has(cls) {
			return nil
		}
		k := c.Store + "|" + c.Op + "|" + c.Key
		// a deterministic half of the keys is hit (so faulty and clean calls mix)
		h := fnv.New32a()
		fmt.Fprintf(h, "%d|%s", seed, k)
		if h.Sum32()%2 == 1 && cls != "blob-getattr" {
			return nil
		}
		if seen[k] >= times {
			return nil
		}
		seen[k]++
		return fmt.Errorf("%w (%s %s %s, failure %d)", memstore.ErrInjected, c.Store, c.Op, short(c.Key), seen[k])
	}
}

// callClass names the kind of store call for the fault classes.
func callClass(c memstore.Call) string {
	isMeta := strings.HasPrefix(c.Store, "meta")
	isIndex := isMeta && strings.HasPrefix(c.Key, "reverse-index")
	switch {
	case c.Store == "blob" && (c.Op == "get" || c.Op == "readat"):
		return "blob-get"
	case c.Store == "blob" && c.Op == "getattr":
		return "blob-getattr"
	case c.Store == "blob" && c.Op == "delete":
		return "blob-delete"
	case c.Store == "blob" && c.Op == "list":
		return "blob-list"
	case isIndex && c.Op == "list":
		return "index-list"
	case isIndex && c.Op == "get":
		return "index-get"
	case isIndex && (c.Op == "put" || c.Op == "putx"):
		return "index-put"
	case isIndex && c.Op == "delete":
		return "index-delete"
	case isMeta && c.Op == "list":
		return "meta-list"
	case isMeta && c.Op == "get" && strings.Contains(c.Key, "bundle-files-"):
		return "meta-get-filelist"
	case isMeta && c.Op == "get" && strings.HasSuffix(c.Key, "bundle.yaml"):
		return "meta-get-descriptor"
	}
	return ""
}

// cutScript: for fault classes ending in "-cut" the Get succeeds and the transfer of the body is cut (after none, half
// or all but one of its bytes), the first `times` times a key of that class is read.
func cutScript(classes []string, times int, seed int64) func(c memstore.Call, size int) (int, error) {
	seen := map[string]int{}
	var mu sync.Mutex
	return func(c memstore.Call, size int) (int, error) {
		cls := callClass(c)
		hit := false
		for _, x := range classes {
			if cls != "" && x == cls+"-cut" {
				hit = true
			}
		}
		if !hit {
			return 0, nil
		}
		mu.Lock()
		defer mu.Unlock()
		k := c.Store + "|" + c.Key
		if seen[k] >= times {
			return 0, nil
		}
		seen[k]++
		h := fnv.New32a()
		fmt.Fprintf(h, "%d|%s", seed, k)
		n := []int{0, size / 2, size - 1}[h.Sum32()%3]
		if n < 0 {
			n = 0
		}
		return n, fmt.Errorf("%w (%s get %s cut after %d of %d bytes)", memstore.ErrInjected, c.Store, short(c.Key), n, size)
	}
}

func short(k string) string {
	if len(k) > 24 {
		return k[:24] + "…"
	}
	return k
}

// ---------------------------------------------------------------------------------------------------
// one execution = base world cloned, then build / uploads / delete according to the plan

type plan struct {
	family     string
	crashK     int // build: crash at the k-th mutating call (0: none)
	crashAfter bool
	crash2K    int // crash the resumed build too
	crash2A    bool
	gatePhase  string // build | delete
	gateSpec   gateSpec
	parkUpload bool // park the uploader (at its call gateSpec.N) while the purge command runs, instead of the reverse
	delCrashK  int
	delCrashA  bool
	label      string
}

type gateSpec struct {
	Store, Op string
	N         int             // n-th call matching (Store, Op); Store == "" matches any call
	Keys      map[string]bool // when set: only calls on these keys match
}

func (g gateSpec) String() string {
	if g.Store == "" {
		return fmt.Sprintf("call#%d", g.N)
	}
	if g.Keys != nil {
		return fmt.Sprintf("%s.%s#%d-on-a-blob-the-upload-reuses", g.Store, g.Op, g.N)
	}
	return fmt.Sprintf("%s.%s#%d", g.Store, g.Op, g.N)
}

func (g gateSpec) matcher() func(c memstore.Call) bool {
	n := 0
	return func(c memstore.Call) bool {
		if g.Store != "" {
			st := c.Store
			if strings.HasPrefix(st, "meta") && strings.HasPrefix(c.Key, "reverse-index") {
				st = "index"
			}
			if st != g.Store || c.Op != g.Op {
				return false
			}
			if g.Keys != nil && !g.Keys[c.Key] {
				return false
			}
		}
		n++
		return n == g.N
	}
}

type execInfo struct {
	buildCalls, buildMuts int
	delCalls              int
	buildLog, delLog      []memstore.Event
	judged                bool
	reusedKeys            map[string]bool // unreferenced blobs (before the build) that late uploads reuse
}

func (s *scen) exec(base *coreh.Env, protected []*bref, pl plan) execInfo {
	res := s.res
	var info execInfo
	cx := mkctx(base.Clone())
	w := cx.main.W
	prot := append([]*bref{}, protected...)
	preBlobs := cx.main.Blob.Snapshot()
	referenced := map[string]bool{}
	for _, b := range prot {
		for k := range b.keys {
			referenced[k] = true
		}
	}
	orphans := map[string]bool{}
	for k := range preBlobs {
		if !referenced[k] {
			orphans[k] = true
		}
	}
	infoReused := map[string]bool{}
	info.reusedKeys = infoReused
	lateUpload := func(a *memstore.Actor, u upl, when string) bool {
		b, err := s.upload(cx, a, u, true, orphans)
		if err != nil {
			res.Violate("late-upload-failed", pl.family+"|"+when, "[%s] upload %s (%v) failed: %v", pl.label, when, u, err)
			return false
		}
		ks, err := keysOf(cx, b)
		if err != nil || os.Getenv("VERIF_C13_SCRATCHKEYS") != "" { // the variable forces the fallback (self-test of it)
			// the upload reported success but a root blob of it is already gone, so its keys cannot be read from
			// this store: they are content-determined, take them from the same upload into a private copy of the
			// starting state. The loss itself is judged below through the missing keys.
			res.Stat("late_upload_keys_unreadable", 1)
			ks = nil
			sc := mkctx(base.Clone())
			if b2, e2 := s.upload(sc, memstore.NewActor("scratch-uploader"), u, true, nil); e2 == nil {
				ks, _ = keysOf(sc, b2)
			}
			if ks == nil {
				ks = map[string]bool{}
			}
		}
		b.keys = ks
		for k := range ks {
			if orphans[k] {
				b.reused++
				infoReused[k] = true
			}
		}
		b.kinds = when
		if b.reused > 0 {
			res.Stat("late_uploads_reusing_unreferenced_blobs", 1)
		}
		res.Stat("late_uploads", 1)
		prot = append(prot, b)
		return true
	}
	buildStart := w.Seq()

	// ---- build
	ba := memstore.NewActor("builder")
	var bgate *memstore.Gate
	var uerr chan bool
	if pl.crashK > 0 {
		ba.CrashAt(pl.crashK, pl.crashAfter)
	}
	if pl.family == "fault" {
		ba.SetFault(faultScript(s.p.FaultClasses, s.p.FaultTimes, s.p.Seed))
		ba.SetReadFault(cutScript(s.p.FaultClasses, s.p.FaultTimes, s.p.Seed))
	}
	if pl.gatePhase == "build" && !pl.parkUpload {
		bgate = ba.GateWhen(pl.gateSpec.matcher())
	}
	var out outcome
	if pl.gatePhase == "build" && pl.parkUpload {
		// the build starts and is held inside its first store call (the index time is taken by then); the uploader
		// starts, parks inside its call N; the whole build runs; the uploader resumes
		b1 := ba.GateAt(1)
		done := make(chan outcome, 1)
		go func() { done <- runOrDie(ba, s.buildFn(cx, ba, false)) }()
		<-b1.Parked()
		ua := memstore.NewActor("uploader")
		ug := ua.GateWhen(pl.gateSpec.matcher())
		uerr = make(chan bool, 1)
		go func() { uerr <- lateUpload(ua, *s.p.During, "parked-during-build") }()
		select {
		case <-ug.Parked():
			res.Stat("uploader_parked", 1)
		case ok := <-uerr:
			uerr <- ok // finished before reaching the gate
		}
		b1.Release()
		out = <-done
		ug.Release()
		if !<-uerr {
			return info
		}
	} else if bgate != nil {
		done := make(chan outcome, 1)
		go func() { done <- runOrDie(ba, s.buildFn(cx, ba, false)) }()
		select {
		case <-bgate.Parked():
			res.Stat("purge_parked", 1)
			res.Seen("park_points", "build:"+bgate.Call().Store+"."+bgate.Call().Op)
			ok := lateUpload(memstore.NewActor("uploader"), *s.p.During, "during-build")
			bgate.Release()
			out = <-done
			if !ok {
				return info
			}
		case out = <-done:
			if !lateUpload(memstore.NewActor("uploader"), *s.p.During, "after-build") {
				return info
			}
		}
	} else {
		out = runOrDie(ba, s.buildFn(cx, ba, false))
	}
	info.buildCalls, info.buildMuts = ba.Calls()
	if pl.family == "fault" {
		res.Stat("faults_injected_in_build", int64(ba.FaultsInjected()))
	}
	attempt := 0
	for out.died || out.err != nil {
		attempt++
		if attempt > 4 {
			res.Skipped = "the index build did not succeed after 4 retries"
			return info
		}
		if out.died {
			res.Stat("build_crashes", 1)
			op, key := ba.CrashPoint()
			res.Seen("crash_points", op+" "+strings.SplitN(key, "/", 2)[0])
		} else {
			res.Stat("builds_reporting_failure", 1)
		}
		var parkedGate *memstore.Gate
		var parkedDone chan bool
		if attempt == 1 {
			for gi, u := range s.p.Gap {
				// (when the crash hit the very first write of the build before it landed, nothing in the store tells that an
				// index was ever started: the resumed job IS the first build, an upload straddling its start is outside the
				// property — such an upload is run to completion before the resume instead)
				if gi == 0 && s.p.GapParked && out.died && !(pl.crashK == 1 && !pl.crashAfter) {
					// this upload writes its blobs now and commits only after the resumed build has scanned the bundles
					ua := memstore.NewActor("uploader-straddling-the-resume")
					parkedGate = ua.GateWhen(func(c memstore.Call) bool {
						return strings.HasSuffix(c.Key, "/bundle.yaml") && (c.Op == "put" || c.Op == "putx")
					})
					parkedDone = make(chan bool, 1)
					u := u
					go func() { parkedDone <- lateUpload(ua, u, "started-after-the-crash-committed-after-the-resume") }()
					select {
					case <-parkedGate.Parked():
						res.Stat("uploads_held_across_the_resume", 1)
					case ok := <-parkedDone:
						parkedDone <- ok
					}
					continue
				}
				if !lateUpload(memstore.NewActor("uploader"), u, "between-crash-and-resume") {
					return info
				}
			}
		}
		// the operator restarts the job: --resume after a crash; after a reported failure, resume or start over
		resume := out.died || attempt%2 == 1
		ra := memstore.NewActor(fmt.Sprint("builder-retry", attempt))
		if attempt == 1 && pl.crash2K > 0 {
			ra.CrashAt(pl.crash2K, pl.crash2A)
		}
		out = runOrDie(ra, s.buildFn(cx, ra, resume))
		ba = ra
		if resume {
			res.Stat("builds_resumed", 1)
		}
		if parkedGate != nil {
			parkedGate.Release()
			if !<-parkedDone {
				return info
			}
		}
	}
	res.Stat("builds_succeeded", 1)
	info.buildLog = w.Log(buildStart)
	chunks, _ := cx.main.ParseIndex()
	indexed := map[string]bool{}
	var indexTime time.Time
	for _, ch := range chunks {
		for _, k := range ch.Keys {
			indexed[k] = true
		}
		indexTime = ch.Time
	}

	// ---- uploads between build and delete-unused
	for _, u := range s.p.Mid {
		if !lateUpload(memstore.NewActor("uploader"), u, "between-build-and-delete") {
			return info
		}
	}

	// ---- delete-unused
	delStart := w.Seq()
	da := memstore.NewActor("deleter")
	if pl.family == "fault" {
		da.SetFault(faultScript(s.p.FaultClasses, s.p.FaultTimes, s.p.Seed+1))
		da.SetReadFault(cutScript(s.p.FaultClasses, s.p.FaultTimes, s.p.Seed+1))
	}
	if pl.delCrashK > 0 {
		da.CrashAt(pl.delCrashK, pl.delCrashA)
	}
	if pl.gatePhase == "delete" && pl.parkUpload {
		ua := memstore.NewActor("uploader")
		ug := ua.GateWhen(pl.gateSpec.matcher())
		uerr = make(chan bool, 1)
		go func() { uerr <- lateUpload(ua, *s.p.During, "parked-during-delete") }()
		select {
		case <-ug.Parked():
			res.Stat("uploader_parked", 1)
		case ok := <-uerr:
			uerr <- ok
		}
		out = runOrDie(da, s.deleteFn(cx, da))
		ug.Release()
		if !<-uerr {
			return info
		}
	} else if pl.gatePhase == "delete" {
		dg := da.GateWhen(pl.gateSpec.matcher())
		done := make(chan outcome, 1)
		go func() { done <- runOrDie(da, s.deleteFn(cx, da)) }()
		select {
		case <-dg.Parked():
			res.Stat("purge_parked", 1)
			res.Seen("park_points", "delete:"+dg.Call().Store+"."+dg.Call().Op)
			ok := lateUpload(memstore.NewActor("uploader"), *s.p.During, "during-delete")
			dg.Release()
			out = <-done
			if !ok {
				return info
			}
		case out = <-done:
			if !lateUpload(memstore.NewActor("uploader"), *s.p.During, "after-delete") {
				return info
			}
		}
	} else {
		out = runOrDie(da, s.deleteFn(cx, da))
	}
	info.delCalls, _ = da.Calls()
	if pl.family == "fault" {
		res.Stat("faults_injected_in_delete", int64(da.FaultsInjected()))
	}
	attempt = 0
	for out.died || out.err != nil {
		attempt++
		if attempt > 3 {
			res.Skipped = "delete-unused did not succeed after 3 retries"
			return info
		}
		if out.died {
			res.Stat("delete_crashes", 1)
		} else {
			res.Stat("deletes_reporting_failure", 1)
		}
		ra := memstore.NewActor(fmt.Sprint("deleter-retry", attempt))
		out = runOrDie(ra, s.deleteFn(cx, ra))
	}
	res.Stat("deletes_succeeded", 1)
	info.delLog = w.Log(delStart)
	info.judged = true

	// ---- oracle: every protected bundle still has all its blobs and downloads with its tree
	after := cx.main.Blob.Snapshot()
	res.Stat("blobs_deleted", int64(len(preBlobs))-int64(countIn(preBlobs, after)))
	full := w.Log(buildStart)
	for _, b := range prot {
		var lost []string
		for k := range b.keys {
			if _, ok := after[k]; !ok {
				lost = append(lost, k)
			}
		}
		sort.Strings(lost)
		if len(lost) > 0 {
			k := lost[0]
			reason := why(k, b, full, preBlobs, indexed, referenced)
			res.Violate("needed-blob-deleted", pl.family+"|"+reason,
				"[%s] bundle %s/%s/%s (%s) lost %d of its %d blobs although build and delete-unused reported success; first lost key %s…: %s; index time %s, %d chunks, %d keys; plan %+v",
				pl.label, b.Ctx, b.Repo, b.ID, map[bool]string{false: "committed before the index was started", true: "uploaded after the index was started: " + b.kinds}[b.late],
				len(lost), len(b.keys), k[:12], reason, indexTime.Format(time.RFC3339Nano), len(chunks), len(indexed), pl)
			res.Trace = traceFor(k, full)
			continue
		}
		e := cx.env(b.Ctx)
		dest := w.Store("dest-" + b.ID)
		if err := e.Publish(nil, b.Repo, b.ID, dest.For(nil), 3); err != nil {
			res.Violate("bundle-broken-after-purge", pl.family, "[%s] bundle %s/%s/%s no longer downloads: %v", pl.label, b.Ctx, b.Repo, b.ID, err)
			continue
		}
		if d := coreh.DiffTrees(coreh.WithoutMeta(coreh.StoreTree(dest)), b.tree); d != "" {
			res.Violate("bundle-content-after-purge", pl.family, "[%s] bundle %s/%s/%s: %s", pl.label, b.Ctx, b.Repo, b.ID, d)
			continue
		}
		res.Stat("protected_bundles_downloaded", 1)
		if b.late {
			res.Stat("late_bundles_downloaded", 1)
		}
	}
	return info
}

func countIn(a, b map[string][]byte) int {
	n := 0
	for k := range a {
		if _, ok := b[k]; ok {
			n++
		}
	}
	return n
}

// why explains, from the linearisation log, how a needed key came to be deleted.
func why(k string, b *bref, log []memstore.Event, pre map[string][]byte, indexed, referenced map[string]bool) string {
	var delSeq, getattrSeq int64
	deleter := ""
	for _, e := range log {
		if e.Store == "blob" && e.Key == k && e.Op == "delete" && e.Landed {
			delSeq, deleter = e.Seq, e.Actor
		}
	}
	if delSeq == 0 {
		return "never-written-or-deleted-outside-the-purge"
	}
	var refreshSeq int64 // last landed put/touch of k by someone else before the delete
	refresher := ""
	faultOnAttr := false
	for _, e := range log {
		if e.Store != "blob" || e.Key != k || e.Seq >= delSeq {
			continue
		}
		if e.Actor == deleter && e.Op == "getattr" {
			if e.Err != "" {
				faultOnAttr = true
			} else {
				getattrSeq = e.Seq
			}
		}
		if e.Actor != deleter && e.Landed && (e.Op == "put" || e.Op == "putx" || e.Op == "touch") {
			refreshSeq, refresher = e.Seq, e.Actor
		}
	}
	_, existed := pre[k]
	switch {
	case indexed[k]:
		return "key-is-in-the-index"
	case refreshSeq > 0 && getattrSeq > 0 && refreshSeq > getattrSeq:
		return "race:" + role(deleter) + ".getattr<" + role(refresher) + ".refresh<" + role(deleter) + ".delete"
	case refreshSeq > 0 && faultOnAttr:
		return "blob-written-after-index-start-deleted-after-failed-attribute-read"
	case refreshSeq > 0:
		return "blob-written-after-index-start-deleted"
	case !b.late && existed:
		return "old-blob-of-committed-bundle-missing-from-index" + buildCauses(log)
	case b.late && existed && !referenced[k]:
		return "reused-unreferenced-blob-not-refreshed-by-upload"
	case b.late && existed:
		return "reused-referenced-blob-missing-from-index" + buildCauses(log)
	}
	return "unclassified"
}

// buildCauses lists what happened to the index build(s) according to the log: failed root reads, failed chunk
// writes, crashes, resumed runs.
func buildCauses(log []memstore.Event) string {
	c := map[string]bool{}
	for _, e := range log {
		if !strings.HasPrefix(e.Actor, "builder") {
			continue
		}
		idx := strings.HasPrefix(e.Key, "reverse-index")
		switch {
		case strings.HasPrefix(e.Op, "crash-"):
			c["build-crashed"] = true
		case strings.HasPrefix(e.Actor, "builder-retry"):
			c["build-restarted"] = true
		}
		if e.Err != "" && strings.Contains(e.Err, "injected") {
			switch {
			case e.Store == "blob":
				c["root-read-failed"] = true
			case idx && (e.Op == "put" || e.Op == "putx"):
				c["chunk-write-failed"] = true
			case idx:
				c["chunk-delete-failed"] = true
			default:
				c["metadata-read-failed"] = true
			}
		}
	}
	var l []string
	for k := range c {
		l = append(l, k)
	}
	sort.Strings(l)
	if len(l) == 0 {
		return ""
	}
	return "(" + strings.Join(l, ",") + ")"
}

func role(actor string) string {
	switch {
	case strings.HasPrefix(actor, "deleter"):
		return "deleter"
	case strings.HasPrefix(actor, "builder"):
		return "builder"
	case strings.HasPrefix(actor, "uploader"):
		return "uploader"
	}
	return actor
}

func traceFor(k string, log []memstore.Event) []string {
	var out []string
	for _, e := range log {
		if e.Key == k || strings.HasPrefix(e.Key, "reverse-index") && (e.Op == "put" || e.Op == "putx" || e.Op == "delete") {
			out = append(out, fmt.Sprintf("%d %s %s.%s %s err=%q landed=%v", e.Seq, e.Actor, e.Store, e.Op, short(e.Key), e.Err, e.Landed))
		}
	}
	if len(out) > 60 {
		out = out[len(out)-60:]
	}
	return out
}

// ---------------------------------------------------------------------------------------------------

func run13(c drv.Case, res *drv.Result) {
	var p params
	drv.Params(c, &p)
	cafsh.InstallWriteProgressMonitor()
	res.Canon = string(c.Params)
	s := &scen{p: p, res: res}
	base := coreh.NewEnv(memstore.Config{})
	cx := mkctx(base)
	must := func(err error) {
		if err != nil {
			panic(fmt.Sprintf("set-up failed: %v", err))
		}
	}
	must(base.CreateRepo(nil, "r1"))
	must(base.CreateRepo(nil, "r2"))
	must(cx.x.CreateRepo(nil, "r3"))
	var all []*bref
	for _, u := range append(append([]upl{}, p.Pre...), p.Doomed) {
		b, err := s.upload(cx, nil, u, false, nil)
		must(err)
		all = append(all, b)
	}
	must(core.DeleteRepo("rdel", base.Stores(nil)))
	if p.Squash {
		must(core.RepoSquash(base.Stores(nil), "r1"))
	}
	// protected = what is visible now
	visible := map[string]bool{}
	for _, cn := range []string{"main", "x"} {
		bs, err := coreh.VisibleBundles(cn, cx.env(cn).Stores(nil))
		must(err)
		for _, b := range bs {
			visible[b.Ctx+"/"+b.Repo+"/"+b.ID] = true
		}
	}
	var protected []*bref
	for _, b := range all {
		if visible[b.Ctx+"/"+b.Repo+"/"+b.ID] {
			ks, err := keysOf(cx, b)
			must(err)
			b.keys = ks
			protected = append(protected, b)
		}
	}
	res.Stat("bundles_committed_before_index", int64(len(protected)))
	norph := 0
	{
		ref := map[string]bool{}
		for _, b := range protected {
			for k := range b.keys {
				ref[k] = true
			}
		}
		for k := range base.Blob.Snapshot() {
			if !ref[k] {
				norph++
			}
		}
	}
	res.Stat("unreferenced_blobs_before_index", int64(norph))
	res.Nontrivial = len(protected) > 0

	r := gen.Rand(p.Seed, "points")
	evals := int64(0)
	sample := func(n, max int) []int { // n indices 1..n, thinned to at most max (evenly, PRNG offset)
		var out []int
		if n <= max {
			for i := 1; i <= n; i++ {
				out = append(out, i)
			}
			return out
		}
		seen := map[int]bool{}
		for len(out) < max {
			i := 1 + r.Intn(n)
			if !seen[i] {
				seen[i] = true
				out = append(out, i)
			}
		}
		sort.Ints(out)
		return out
	}
	switch p.Family {
	case "plain", "fault":
		info := s.exec(base, protected, plan{family: p.Family, label: c.ID})
		if info.judged {
			evals++
		}
	case "crash":
		probe := s.exec(base, protected, plan{family: "crash", label: c.ID + "/uncrashed"})
		if !probe.judged {
			return
		}
		evals++
		pts := sample(probe.buildMuts, p.MaxPoints/2)
		if len(pts) == probe.buildMuts {
			res.Stat("exhaustive_complete", 1)
		}
		for _, k := range pts {
			for _, after := range []bool{false, true} {
				pl := plan{family: "crash", crashK: k, crashAfter: after, label: fmt.Sprintf("%s/crash@%d,after=%v", c.ID, k, after)}
				if p.Second {
					pl.crash2K, pl.crash2A = 1+r.Intn(3), r.Intn(2) == 0
				}
				if s.exec(base, protected, pl).judged {
					evals++
				}
				if len(res.Violations) > 3 {
					break
				}
			}
		}
	case "delete-crash":
		probe := s.exec(base, protected, plan{family: "delete-crash", label: c.ID + "/uncrashed"})
		if !probe.judged {
			return
		}
		evals++
		nm := 0
		for _, e := range probe.delLog {
			if strings.HasPrefix(e.Actor, "deleter") && e.Op == "delete" {
				nm++
			}
		}
		for _, k := range sample(nm, p.MaxPoints/2) {
			for _, after := range []bool{false, true} {
				if s.exec(base, protected, plan{family: "delete-crash", delCrashK: k, delCrashA: after, label: fmt.Sprintf("%s/crash@%d,after=%v", c.ID, k, after)}).judged {
					evals++
				}
			}
		}
	case "gate-build", "gate-delete":
		phase := strings.TrimPrefix(p.Family, "gate-")
		probe := s.exec(base, protected, plan{family: p.Family, gatePhase: phase, gateSpec: gateSpec{N: 1 << 30}, label: c.ID + "/ungated"})
		if !probe.judged {
			return
		}
		evals++
		// park positions of the purge command: every blob getattr/delete (delete phase), every index write (build
		// phase), plus evenly sampled positions among all calls
		var specs []gateSpec
		log := probe.buildLog
		who := "builder"
		ncalls := probe.buildCalls
		if phase == "delete" {
			log, who, ncalls = probe.delLog, "deleter", probe.delCalls
		}
		cnt := map[string]int{}
		for _, e := range log {
			if !strings.HasPrefix(e.Actor, who) {
				continue
			}
			st := e.Store
			if strings.HasPrefix(st, "meta") && strings.HasPrefix(e.Key, "reverse-index") {
				st = "index"
			}
			cnt[st+"."+e.Op]++
		}
		interesting := []string{"blob.getattr", "blob.delete", "index.putx", "index.delete", "blob.get", "blob.list"}
		for _, so := range interesting {
			parts := strings.SplitN(so, ".", 2)
			for _, n := range sample(cnt[so], 4) {
				specs = append(specs, gateSpec{Store: parts[0], Op: parts[1], N: n})
			}
		}
		for _, n := range sample(ncalls, 4) {
			specs = append(specs, gateSpec{N: n})
		}
		var targeted []gateSpec
		if phase == "delete" && len(probe.reusedKeys) > 0 {
			// the purge command parked inside its attribute read / its delete of a blob that the upload reuses
			targeted = append(targeted, gateSpec{Store: "blob", Op: "delete", N: 1, Keys: probe.reusedKeys}, gateSpec{Store: "blob", Op: "getattr", N: 1, Keys: probe.reusedKeys})
		}
		if len(specs) > p.MaxPoints {
			r.Shuffle(len(specs), func(i, j int) { specs[i], specs[j] = specs[j], specs[i] })
			specs = specs[:p.MaxPoints]
		}
		specs = append(targeted, specs...)
		for _, g := range specs {
			if s.exec(base, protected, plan{family: p.Family + ":purge-parked", gatePhase: phase, gateSpec: g, label: fmt.Sprintf("%s/%s parked at %s", c.ID, who, g)}).judged {
				evals++
			}
		}
		// the uploader parked inside each of a few of its calls while the whole purge command runs
		for _, n := range sample(12, 4) {
			g := gateSpec{N: n}
			if s.exec(base, protected, plan{family: p.Family + ":upload-parked", gatePhase: phase, gateSpec: g, parkUpload: true, label: fmt.Sprintf("%s/uploader parked at %s", c.ID, g)}).judged {
				evals++
			}
		}
		for _, n := range sample(3, 3) {
			g := gateSpec{Store: "blob", Op: "touch", N: n}
			if s.exec(base, protected, plan{family: p.Family + ":upload-parked", gatePhase: phase, gateSpec: g, parkUpload: true, label: fmt.Sprintf("%s/uploader parked at %s", c.ID, g)}).judged {
				evals++
			}
		}
	}
	if evals > 1 {
		res.Evals, res.Distinct = evals-1, evals-1
	}
	if evals == 0 && res.Skipped == "" && len(res.Violations) == 0 {
		res.Skipped = "no execution was judged"
	}
	res.Sample = map[string]interface{}{"family": p.Family, "leaf": p.Leaf, "chunk": p.Chunk, "doomed": p.Doomed.Files, "mid": p.Mid, "during": p.During, "fault_classes": p.FaultClasses, "executions": evals}
}

var _ = hex.EncodeToString

func TestC13(t *testing.T) {
	drv.Main(t, drv.Driver{ID: "C13", Gen: gen13, Run: run13, CaseTimeout: 30 * time.Minute})
}
