//go:build verif
// +build verif

package coreh

import (
	"bufio"
	"bytes"
	"context"
	"encoding/hex"
	"fmt"
	"os"
	"sort"
	"strings"
	"time"

	context2 "github.com/oneconcern/datamon/pkg/context"
	"github.com/oneconcern/datamon/pkg/core"

	"verifharness/memstore"
)

// ExtraStores is another context sharing this context's blob store (own metadata stores).
func (e *Env) ExtraStores(a *memstore.Actor, name string) context2.Stores {
	w := e.W
	return context2.NewStores(w.Store("wal-"+name).For(a), w.Store("readlog-"+name).For(a), e.Blob.For(a), w.Store("meta-"+name).For(a), w.Store("vmeta-"+name).For(a))
}

// ExtraEnv views an extra context as an Env (for uploads etc.).
func (e *Env) ExtraEnv(name string) *Env {
	w := e.W
	return &Env{W: w, Meta: w.Store("meta-" + name), Blob: e.Blob, VMeta: w.Store("vmeta-" + name), Wal: w.Store("wal-" + name), ReadLog: w.Store("readlog-" + name)}
}

// BundleRef names a visible bundle.
type BundleRef struct{ Ctx, Repo, ID string }

// VisibleBundles lists the committed bundles of a context.
func VisibleBundles(ctxName string, st context2.Stores) ([]BundleRef, error) {
	var out []BundleRef
	repos, err := core.ListRepos(st)
	if err != nil {
		return nil, err
	}
	for _, r := range repos {
		bs, err := core.ListBundles(r.Name, st)
		if err != nil {
			return nil, err
		}
		for _, b := range bs {
			out = append(out, BundleRef{ctxName, r.Name, b.ID})
		}
	}
	return out, nil
}

// KeysOfBundle returns the root keys and leaf keys a bundle needs (leaves read from the root blobs).
func (e *Env) KeysOfBundle(repo, id string) (map[string]bool, error) {
	_, ents, err := e.Entries(nil, repo, id)
	if err != nil {
		return nil, err
	}
	keys := map[string]bool{}
	for _, en := range ents {
		keys[en.Hash] = true
		raw, ok := e.Blob.RawGet(en.Hash)
		if !ok {
			return nil, fmt.Errorf("root blob %s of %s missing", en.Hash[:12], en.NameWithPath)
		}
		for i := 0; i+64 <= len(raw)-64; i += 64 {
			keys[hex.EncodeToString(raw[i:i+64])] = true
		}
	}
	return keys, nil
}

// IndexChunk is one uploaded reverse-index chunk.
type IndexChunk struct {
	N    uint64
	Time time.Time
	Keys []string
}

// ParseIndex reads the reverse-index chunks from the metadata store.
func (e *Env) ParseIndex() ([]IndexChunk, error) {
	var out []IndexChunk
	for k, raw := range e.Meta.Snapshot() {
		if !strings.HasPrefix(k, "reverse-index/chunk-") {
			continue
		}
		var n uint64
		if _, err := fmt.Sscanf(k, "reverse-index/chunk-%d.yaml", &n); err != nil {
			return nil, fmt.Errorf("unexpected index object %q", k)
		}
		sc := bufio.NewScanner(bytes.NewReader(raw))
		sc.Buffer(make([]byte, 1<<20), 1<<20)
		c := IndexChunk{N: n}
		first := true
		for sc.Scan() {
			if first {
				t, err := time.Parse(time.RFC3339Nano, sc.Text())
				if err != nil {
					return nil, fmt.Errorf("chunk %d: bad time header %q", n, sc.Text())
				}
				c.Time = t
				first = false
				continue
			}
			c.Keys = append(c.Keys, sc.Text())
		}
		if first {
			return nil, fmt.Errorf("chunk %d has no time header", n)
		}
		out = append(out, c)
	}
	sort.Slice(out, func(i, j int) bool { return out[i].N < out[j].N })
	return out, nil
}

// KVDir makes a fresh directory for the local KV store of one purge command.
func KVDir() string {
	d, err := os.MkdirTemp(os.Getenv("VERIF_SCRATCH"), "kv-")
	if err != nil {
		panic(err)
	}
	return d
}

// PurgeOpts are the common options of purge commands in the harness.
func PurgeOpts(kv string, extra []context2.Stores, chunk uint64, fastUploader bool) []core.PurgeOption {
	o := []core.PurgeOption{core.WithPurgeLogger(Nop), core.WithPurgeLocalStore(kv), core.WithPurgeParallel(4), core.WithPurgeMonitorInterval(time.Hour)}
	if len(extra) > 0 {
		o = append(o, core.WithPurgeExtraContexts(extra))
	}
	if chunk > 0 {
		o = append(o, core.WithPurgeIndexChunkSize(chunk))
	}
	if fastUploader {
		o = append(o, core.WithPurgeUploaderInterval(time.Millisecond))
	}
	return o
}

var _ = context.Background
