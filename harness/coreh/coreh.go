//go:build verif
// +build verif

// Package coreh has helpers to drive pkg/core against the reference store.
package coreh

import (
	"bytes"
	"context"
	"fmt"
	"io/ioutil"
	"os"
	"path/filepath"
	"sort"
	"strings"

	"github.com/spf13/afero"
	"go.uber.org/zap"

	context2 "github.com/oneconcern/datamon/pkg/context"
	"github.com/oneconcern/datamon/pkg/core"
	"github.com/oneconcern/datamon/pkg/model"
	"github.com/oneconcern/datamon/pkg/storage"
	"github.com/oneconcern/datamon/pkg/storage/localfs"

	"verifharness/memstore"
)

// Env is one datamon context over a memstore world.
type Env struct {
	W                               *memstore.World
	Meta, Blob, VMeta, Wal, ReadLog *memstore.Store
	// BlobOverride, when set, is the blob store handed to datamon instead of Blob (e.g. a sparsestore for very large
	// files); it is not cloned and sees no actor
	BlobOverride storage.Store
}

// NewEnv creates the five stores of a context.
func NewEnv(cfg memstore.Config) *Env {
	w := memstore.NewWorld(cfg)
	return FromWorld(w)
}

// FromWorld binds an Env to an existing world (e.g. a clone).
func FromWorld(w *memstore.World) *Env {
	return &Env{W: w, Meta: w.Store("meta"), Blob: w.Store("blob"), VMeta: w.Store("vmeta"), Wal: w.Store("wal"), ReadLog: w.Store("readlog")}
}

// Clone copies the stores' content into an independent world.
func (e *Env) Clone() *Env { return FromWorld(e.W.Clone()) }

// Stores returns the actor's view of the context.
func (e *Env) Stores(a *memstore.Actor) context2.Stores {
	if e.BlobOverride != nil {
		return context2.NewStores(e.Wal.For(a), e.ReadLog.For(a), e.BlobOverride, e.Meta.For(a), e.VMeta.For(a))
	}
	return context2.NewStores(e.Wal.For(a), e.ReadLog.For(a), e.Blob.For(a), e.Meta.For(a), e.VMeta.For(a))
}

// Nop is the silent logger.
var Nop = zap.NewNop()

// Tree maps a path to its content.
type Tree map[string][]byte

// Paths returns the sorted paths.
func (t Tree) Paths() []string {
	ps := make([]string, 0, len(t))
	for p := range t {
		ps = append(ps, p)
	}
	sort.Strings(ps)
	return ps
}

// WriteDir materialises a tree under dir.
func WriteDir(dir string, t Tree) error {
	for p, c := range t {
		full := filepath.Join(dir, p)
		if err := os.MkdirAll(filepath.Dir(full), 0o755); err != nil {
			return err
		}
		if err := ioutil.WriteFile(full, c, 0o644); err != nil {
			return err
		}
	}
	return nil
}

// ReadDir reads every file under dir.
func ReadDir(dir string) (Tree, error) {
	t := Tree{}
	err := filepath.Walk(dir, func(p string, info os.FileInfo, err error) error {
		if err != nil {
			return err
		}
		if info.IsDir() {
			return nil
		}
		rel, _ := filepath.Rel(dir, p)
		b, err := ioutil.ReadFile(p)
		if err != nil {
			return err
		}
		t[filepath.ToSlash(rel)] = b
		return nil
	})
	return t, err
}

// LocalFS is the consumable store over a directory, as the CLI builds it.
func LocalFS(dir string) storage.Store {
	return localfs.New(afero.NewBasePathFs(afero.NewOsFs(), dir), localfs.WithRetry(false), localfs.WithLogger(Nop))
}

// MemConsumable fills an in-memory store with a tree (fast consumable store).
func (e *Env) MemConsumable(name string, t Tree) *memstore.Store {
	s := e.W.Store(name)
	for p, c := range t {
		s.RawPut(p, c)
	}
	return s
}

// StoreTree reads back a memstore as a tree.
func StoreTree(s *memstore.Store) Tree {
	t := Tree{}
	for k, v := range s.Snapshot() {
		t[k] = v
	}
	return t
}

// CreateRepo creates a repository.
func (e *Env) CreateRepo(a *memstore.Actor, name string) error {
	return core.CreateRepo(model.RepoDescriptor{Name: name, Description: "verif " + name,
		Contributor: model.Contributor{Name: "v", Email: "v@example.com"}}, e.Stores(a))
}

// UploadOpts tunes an upload.
type UploadOpts struct {
	Leaf        uint32
	Concurrency int
	Keys        []string // explicit key list (nil: whole tree)
	SkipMissing bool
	Message     string
	BundleID    string
}

// NewBundle builds a bundle handle for uploads.
func (e *Env) NewBundle(a *memstore.Actor, repo string, src storage.Store, o UploadOpts) *core.Bundle {
	bd := model.NewBundleDescriptor(model.Message(o.Message), model.BundleContributor(model.Contributor{Name: "v", Email: "v@example.com"}))
	if o.Leaf != 0 {
		bd.LeafSize = o.Leaf
	}
	opts := []core.BundleOption{core.Repo(repo), core.ContextStores(e.Stores(a)), core.ConsumableStore(src), core.BundleDescriptor(bd),
		core.Logger(Nop), core.SkipMissing(o.SkipMissing), core.BundleWithRetry(false)}
	if o.Concurrency > 0 {
		opts = append(opts, core.ConcurrentFileUploads(o.Concurrency))
	}
	if o.BundleID != "" {
		opts = append(opts, core.BundleID(o.BundleID))
	}
	return core.NewBundle(opts...)
}

// Upload uploads src as a new bundle of repo and returns its ID (also set when the upload failed midway).
func (e *Env) Upload(a *memstore.Actor, repo string, src storage.Store, o UploadOpts) (string, error) {
	b := e.NewBundle(a, repo, src, o)
	var err error
	if o.Keys != nil {
		keys := o.Keys
		err = core.UploadSpecificKeys(context.Background(), b, func() ([]string, error) { return keys, nil })
	} else {
		err = core.Upload(context.Background(), b)
	}
	return b.BundleID, err
}

// ReadBundle builds a bundle handle for downloads.
func (e *Env) ReadBundle(a *memstore.Actor, repo, id string, dest storage.Store, conc int) *core.Bundle {
	opts := []core.BundleOption{core.Repo(repo), core.ContextStores(e.Stores(a)), core.BundleID(id), core.Logger(Nop)}
	if dest != nil {
		opts = append(opts, core.ConsumableStore(dest))
	}
	if conc > 0 {
		opts = append(opts, core.ConcurrentFileDownloads(conc), core.ConcurrentFilelistDownloads(conc))
	}
	return core.NewBundle(opts...)
}

// Entries returns the descriptor and entries of a bundle.
func (e *Env) Entries(a *memstore.Actor, repo, id string) (model.BundleDescriptor, []model.BundleEntry, error) {
	b := e.ReadBundle(a, repo, id, nil, 0)
	if err := core.DownloadMetadata(context.Background(), b); err != nil {
		return model.BundleDescriptor{}, nil, err
	}
	return b.BundleDescriptor, b.BundleEntries, nil
}

// Publish downloads a bundle into dest.
func (e *Env) Publish(a *memstore.Actor, repo, id string, dest storage.Store, conc int) error {
	return core.Publish(context.Background(), e.ReadBundle(a, repo, id, dest, conc))
}

// SetLabel points a label at a bundle.
func (e *Env) SetLabel(a *memstore.Actor, repo, name, bundleID string) error {
	b := e.ReadBundle(a, repo, bundleID, nil, 0)
	l := core.NewLabel(core.LabelDescriptor(model.NewLabelDescriptor(model.LabelName(name),
		model.LabelContributor(model.Contributor{Name: "v", Email: "v@example.com"}))))
	return l.UploadDescriptor(context.Background(), b)
}

// NewLabel makes a Label object for a name, as a caller of the library would.
func NewLabel(name string) *core.Label {
	return core.NewLabel(core.LabelDescriptor(model.NewLabelDescriptor(model.LabelName(name),
		model.LabelContributor(model.Contributor{Name: "v", Email: "v@example.com"}))))
}

// SetLabelObject points an existing Label object (possibly used before) at a bundle.
func (e *Env) SetLabelObject(a *memstore.Actor, repo, bundleID string, l *core.Label) error {
	return l.UploadDescriptor(context.Background(), e.ReadBundle(a, repo, bundleID, nil, 0))
}

// GetLabelObject resolves a label into the given object.
func (e *Env) GetLabelObject(a *memstore.Actor, repo string, l *core.Label) error {
	b := core.NewBundle(core.Repo(repo), core.ContextStores(e.Stores(a)), core.Logger(Nop))
	return l.DownloadDescriptor(context.Background(), b, true)
}

// GetLabel resolves a label.
func (e *Env) GetLabel(a *memstore.Actor, repo, name string) (string, error) {
	b := core.NewBundle(core.Repo(repo), core.ContextStores(e.Stores(a)), core.Logger(Nop))
	l := core.NewLabel(core.LabelDescriptor(model.NewLabelDescriptor(model.LabelName(name))))
	if err := l.DownloadDescriptor(context.Background(), b, true); err != nil {
		return "", err
	}
	return l.Descriptor.BundleID, nil
}

// IsGeneratedRef is the independent predicate for generated paths: the first path component, after an
// optional leading "./" or "/", is exactly .datamon, .conflicts or .checkpoints.
func IsGeneratedRef(p string) bool {
	p = strings.TrimPrefix(p, "./")
	p = strings.TrimPrefix(p, "/")
	first := p
	if i := strings.Index(p, "/"); i >= 0 {
		first = p[:i]
	}
	return first == ".datamon" || first == ".conflicts" || first == ".checkpoints"
}

// DiffTrees describes the first differences between two trees.
func DiffTrees(got, want Tree) string {
	var out []string
	for _, p := range want.Paths() {
		g, ok := got[p]
		switch {
		case !ok:
			out = append(out, fmt.Sprintf("missing %q", p))
		case !bytes.Equal(g, want[p]):
			out = append(out, fmt.Sprintf("content of %q differs (%d vs %d bytes)", p, len(g), len(want[p])))
		}
		if len(out) >= 5 {
			break
		}
	}
	for _, p := range got.Paths() {
		if _, ok := want[p]; !ok {
			out = append(out, fmt.Sprintf("unexpected %q", p))
			if len(out) >= 8 {
				break
			}
		}
	}
	return strings.Join(out, "; ")
}

// WithoutMeta drops the .datamon/ metadata files from a downloaded tree.
func WithoutMeta(t Tree) Tree {
	o := Tree{}
	for p, c := range t {
		if !strings.HasPrefix(p, ".datamon/") {
			o[p] = c
		}
	}
	return o
}
