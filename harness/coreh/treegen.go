//go:build verif
// +build verif

package coreh

import (
	"fmt"
	"math/rand"
	"strings"

	"verifharness/gen"
)

// FileSpec describes one generated file: content = gen.Bytes(seed, Label, Len), so that the Python
// oracle can regenerate it.
type FileSpec struct {
	Path  string `json:"path"`
	Label string `json:"label"`
	Len   int    `json:"len"`
}

// TreeSpec is a reproducible tree.
type TreeSpec struct {
	Seed  int64      `json:"seed"`
	Files []FileSpec `json:"files"`
}

// Tree materialises the contents.
func (ts TreeSpec) Tree() Tree {
	t := Tree{}
	for _, f := range ts.Files {
		t[f.Path] = gen.Bytes(ts.Seed, f.Label, f.Len)
	}
	return t
}

// TreeOpt tunes GenTree.
type TreeOpt struct {
	Leaf     int  // sizes are chosen around multiples of the leaf size
	Tiny     bool // all files 0..16 bytes (large trees)
	Decoys   bool // add generated-path decoys and near misses
	MaxDepth int
	DupRatio int // 1 in DupRatio files re-uses the content of another file (0: never)
	Prefix   string
}

var nameParts = []string{"a", "b", "c", "data", "file with space", "ünï-cødé", "x.y.z", ".dot", "UPPER", "日本", "a-b", "a_b", "0", "long-name-to-make-paths-a-little-longer"}

// GenTree generates n files without file/directory conflicts.
func GenTree(r *rand.Rand, seed int64, n int, o TreeOpt) TreeSpec {
	if o.MaxDepth == 0 {
		o.MaxDepth = 6
	}
	if o.Leaf == 0 {
		o.Leaf = 4096
	}
	ts := TreeSpec{Seed: seed}
	files := map[string]bool{}
	dirs := map[string]bool{}
	add := func(p string, size int, label string) bool {
		parts := strings.Split(p, "/")
		if files[p] || dirs[p] {
			return false
		}
		for i := 1; i < len(parts); i++ {
			if files[strings.Join(parts[:i], "/")] {
				return false
			}
		}
		files[p] = true
		for i := 1; i < len(parts); i++ {
			dirs[strings.Join(parts[:i], "/")] = true
		}
		ts.Files = append(ts.Files, FileSpec{Path: p, Label: label, Len: size})
		return true
	}
	size := func() int {
		if o.Tiny {
			return r.Intn(17)
		}
		switch r.Intn(9) {
		case 0:
			return 0
		case 1:
			return 1
		case 2:
			return o.Leaf - 1
		case 3:
			return o.Leaf
		case 4:
			return o.Leaf + 1
		case 5:
			return 3 * o.Leaf
		case 6:
			return 2*o.Leaf + 1 + r.Intn(o.Leaf)
		}
		return r.Intn(2*o.Leaf + 1)
	}
	for i := 0; len(ts.Files) < n && i < 20*n+100; i++ {
		var p string
		if n > 200 {
			// many siblings in a few directories
			p = fmt.Sprintf("%sd%d/%s-%05d", o.Prefix, r.Intn(7), nameParts[r.Intn(len(nameParts))], i)
			if r.Intn(10) == 0 {
				p = fmt.Sprintf("%sf-%05d", o.Prefix, i)
			}
		} else {
			depth := 1 + r.Intn(o.MaxDepth)
			parts := make([]string, depth)
			for j := range parts {
				parts[j] = nameParts[r.Intn(len(nameParts))]
			}
			p = o.Prefix + strings.Join(parts, "/")
		}
		label := fmt.Sprintf("f%d", i)
		sz := size()
		if o.DupRatio > 0 && len(ts.Files) > 0 && r.Intn(o.DupRatio) == 0 {
			prev := ts.Files[r.Intn(len(ts.Files))]
			label, sz = prev.Label, prev.Len
		}
		add(p, sz, label)
	}
	if o.Decoys {
		for i, p := range []string{".datamon/leftover.yaml", ".datamon/sub/x", ".conflicts/split-1/a", ".checkpoints/c/d/e",
			".datamonx", "x/.datamon/y", ".conflicts2/z", "..conflicts", "..checkpoints/q", "sub/.conflicts/a", ".datamon.yaml", "datamon/.datamon"} {
			if r.Intn(3) != 0 {
				add(p, 1+r.Intn(20), fmt.Sprintf("decoy%d", i))
			}
		}
	}
	return ts
}

// Uploadable returns the files an upload must carry (everything but generated paths).
func (ts TreeSpec) Uploadable() map[string]FileSpec {
	m := map[string]FileSpec{}
	for _, f := range ts.Files {
		if !IsGeneratedRef(f.Path) {
			m[f.Path] = f
		}
	}
	return m
}
