// Package gen holds the seeded generators shared by the drivers.
package gen

import (
	"crypto/sha256"
	"encoding/binary"
	"math/rand"
)

// Rand returns a PRNG determined by (seed, labels...).
func Rand(seed int64, labels ...string) *rand.Rand {
	h := sha256.New()
	var b [8]byte
	binary.BigEndian.PutUint64(b[:], uint64(seed))
	h.Write(b[:])
	for _, l := range labels {
		h.Write([]byte{0})
		h.Write([]byte(l))
	}
	s := h.Sum(nil)
	return rand.New(rand.NewSource(int64(binary.BigEndian.Uint64(s[:8]))))
}

// Bytes returns n bytes determined by (seed, label): SHA-256 in counter mode, so that the
// Python oracle can regenerate the same content without bulk data crossing the process boundary.
//
//	block_i = SHA256( "verif-content" || label || 0x00 || be64(seed) || be64(i) )
func Bytes(seed int64, label string, n int) []byte {
	out := make([]byte, 0, n+32)
	var ctr uint64
	for len(out) < n {
		h := sha256.New()
		h.Write([]byte("verif-content"))
		h.Write([]byte(label))
		h.Write([]byte{0})
		var b [16]byte
		binary.BigEndian.PutUint64(b[:8], uint64(seed))
		binary.BigEndian.PutUint64(b[8:], ctr)
		h.Write(b[:])
		out = h.Sum(out)
		ctr++
	}
	return out[:n]
}

// Pick returns a random element.
func Pick(r *rand.Rand, xs []int) int { return xs[r.Intn(len(xs))] }

// PickS returns a random string element.
func PickS(r *rand.Rand, xs []string) string { return xs[r.Intn(len(xs))] }
