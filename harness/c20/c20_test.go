package c20

import (
	"fmt"
	"math"
	"math/rand"
	"reflect"
	"strings"
	"testing"
	"time"
	"unicode"

	"github.com/segmentio/ksuid"
	"gopkg.in/yaml.v2"

	"github.com/oneconcern/datamon/pkg/model"

	"verifharness/drv"
	"verifharness/gen"
)

// C20 — metadata paths and descriptors round-trip.

type params struct {
	Kind string `json:"kind"` // paths | consumable | generated | descriptors | validation
	N    int    `json:"n"`
	Sub  int64  `json:"sub"` // sub-seed
}

func gen20(seed int64, tier string) []drv.Case {
	per, blocks := 400, 8
	if tier == "thorough" {
		per, blocks = 5000, 60
	}
	var cs []drv.Case
	for _, k := range []string{"paths", "consumable", "generated", "descriptors", "validation"} {
		for b := 0; b < blocks; b++ {
			p := params{Kind: k, N: per, Sub: seed*1000 + int64(b)}
			cs = append(cs, drv.Case{ID: fmt.Sprintf("%s-%d", k, b), Class: k, Params: drv.MustJSON(p)})
		}
	}
	return cs
}

var (
	letters = []rune("abzABZéßЖ日本ΩøÅ")
	digits  = []rune("0189٣९") // includes non-ASCII decimal digits
	conn    = []rune("_‿⁀")    // connector punctuation (Pc)
	hostile = []string{"", "/", "a/b", "a b", "a.b", "v1.0.0", "..", ".", "a\tb", "a\nb", "a\x00b", "a:b", "a*b", "é/", "label.yaml", "a​b", "a,b", "a+b", "a@b", "a#b", "(a)", "a;b", "a'b", "a\"b", "a\\b", "a|b", "a~b", "a=b", "a%b", "a&b", "a!b", "a?b", "$a", "a{b}", "a[b]", "a<b>", "a^b", "a`b",
		// numbers that are not decimal digits (Unicode categories No, Nl): outside "letters, digits and '-'"
		"a²", "½", "repo-Ⅷ", "①x", "〇", "x৴", "ⅰ", "a³b", "x¼"}
	idxVals = []uint64{0, 1, 9, 10, 999, 1000, 1 << 31, 1<<63 - 1, 1 << 63, math.MaxUint64}
	strPool = []string{"", "a", "hello world", " lead", "trail ", "multi\nline\n", "yes", "no", "null", "~", "123", "1e3", "0x1f", "- a", "a: b", "# x", "'", "\"", "日本語 text", "tab\there", "{a: 1}", "[1,2]", "!!str x", "&a", "*a", "|", ">", "%", "@", "`", "2020-01-02", "2020-01-02T03:04:05Z", "true", "a\n", "\n", "  ", ":", "?", "-", "key: [unclosed", "é", "a #b", "x: y: z"}
)

func name(r *rand.Rand, withConn bool) string {
	n := 1 + r.Intn(10)
	var sb strings.Builder
	for i := 0; i < n; i++ {
		switch k := r.Intn(10); {
		case k < 5:
			sb.WriteRune(letters[r.Intn(len(letters))])
		case k < 8:
			sb.WriteRune(digits[r.Intn(len(digits))])
		case k < 9 || !withConn:
			sb.WriteRune('-')
		default:
			sb.WriteRune(conn[r.Intn(len(conn))])
		}
	}
	return sb.String()
}

func kid(r *rand.Rand) string {
	switch r.Intn(12) {
	case 0:
		return ksuid.Nil.String()
	case 1:
		return ksuid.Max.String()
	}
	var payload [16]byte
	r.Read(payload[:])
	id, err := ksuid.FromParts(time.Unix(1400000000+int64(r.Intn(400000000)), 0), payload[:])
	if err != nil {
		panic(err)
	}
	return id.String()
}

func index(r *rand.Rand) uint64 {
	if r.Intn(2) == 0 {
		return idxVals[r.Intn(len(idxVals))]
	}
	return r.Uint64() >> uint(r.Intn(64))
}

type ident struct{ kind, repo, bundle, label, diamond, split, gen, file string }

func run20(c drv.Case, res *drv.Result) {
	var p params
	drv.Params(c, &p)
	r := gen.Rand(p.Sub, "c20", p.Kind)
	distinct := map[string]bool{}
	viol := func(kind, sig, f string, a ...interface{}) {
		for _, v := range res.Violations {
			if v.Sig == kind+"|"+sig {
				return
			}
		}
		res.Violate(kind, sig, f, a...)
	}
	// guard converts a panic of the code under test into a violation of this sub-case
	guard := func(what, sig string, f func()) {
		defer func() {
			if x := recover(); x != nil {
				viol("panic", sig, "%s: panic: %v", what, x)
			}
		}()
		f()
	}
	var sample interface{}
	switch p.Kind {
	case "paths":
		seen := map[string]ident{}
		note := func(path string, id ident) {
			if old, ok := seen[path]; ok && old != id {
				viol("path-collision", id.kind+"-vs-"+old.kind, "path %q is produced for %+v and for %+v", path, old, id)
			}
			seen[path] = id
			distinct[path] = true
		}
		check := func(path string, id ident, final bool) {
			note(path, id)
			guard("GetArchivePathComponents("+path+")", id.kind, func() {
				apc, err := model.GetArchivePathComponents(path)
				if err != nil {
					viol("path-rejected", id.kind, "GetArchivePathComponents(%q) failed: %v (built from %+v)", path, err, id)
					return
				}
				got := ident{id.kind, apc.Repo, apc.BundleID, apc.LabelName, apc.DiamondID, apc.SplitID, apc.GenerationID, apc.ArchiveFileName}
				if got != id || apc.IsFinalState != final {
					viol("path-roundtrip", id.kind, "path %q built from %+v final=%v parses to %+v final=%v", path, id, final, got, apc.IsFinalState)
				}
			})
		}
		for i := 0; i < p.N; i++ {
			repo, label, b, d, g := name(r, false), name(r, true), kid(r), kid(r), kid(r)
			s := kid(r)
			if r.Intn(2) == 0 {
				s = name(r, false) // split IDs may be user-given names
			}
			idx := index(r)
			check(model.GetArchivePathToRepoDescriptor(repo), ident{kind: "repo", repo: repo, file: "repo.yaml"}, false)
			check(model.GetArchivePathToBundle(repo, b), ident{kind: "bundle", repo: repo, bundle: b, file: "bundle.yaml"}, false)
			check(model.GetArchivePathToBundleFileList(repo, b, idx), ident{kind: "bundle-files", repo: repo, bundle: b, file: fmt.Sprintf("bundle-files-%d.yaml", idx)}, false)
			check(model.GetArchivePathToLabel(repo, label), ident{kind: "label", repo: repo, label: label, file: "label.yaml"}, false)
			check(model.GetArchivePathToInitialDiamond(repo, d), ident{kind: "diamond", repo: repo, diamond: d, file: "diamond-running.yaml"}, false)
			check(model.GetArchivePathToFinalDiamond(repo, d), ident{kind: "diamond", repo: repo, diamond: d, file: "diamond-done.yaml"}, true)
			check(model.GetArchivePathToDiamond(repo, d, model.DiamondInitialized), ident{kind: "diamond", repo: repo, diamond: d, file: "diamond-running.yaml"}, false)
			check(model.GetArchivePathToDiamond(repo, d, model.DiamondDone), ident{kind: "diamond", repo: repo, diamond: d, file: "diamond-done.yaml"}, true)
			check(model.GetArchivePathToDiamond(repo, d, model.DiamondCanceled), ident{kind: "diamond", repo: repo, diamond: d, file: "diamond-done.yaml"}, true)
			check(model.GetArchivePathToInitialSplit(repo, d, s), ident{kind: "split", repo: repo, diamond: d, split: s, file: "split-running.yaml"}, false)
			check(model.GetArchivePathToFinalSplit(repo, d, s), ident{kind: "split", repo: repo, diamond: d, split: s, file: "split-done.yaml"}, true)
			check(model.GetArchivePathToSplit(repo, d, s, model.SplitRunning), ident{kind: "split", repo: repo, diamond: d, split: s, file: "split-running.yaml"}, false)
			check(model.GetArchivePathToSplit(repo, d, s, model.SplitDone), ident{kind: "split", repo: repo, diamond: d, split: s, file: "split-done.yaml"}, true)
			check(model.GetArchivePathToSplitFileList(repo, d, s, g, idx), ident{kind: "split-files", repo: repo, diamond: d, split: s, gen: g, file: fmt.Sprintf("bundle-files-%d.yaml", idx)}, false)
			// prefixes used by listings must be prefixes of the objects they are meant to list
			if !strings.HasPrefix(model.GetArchivePathToBundle(repo, b), model.GetArchivePathPrefixToBundles(repo)) ||
				!strings.HasPrefix(model.GetArchivePathToLabel(repo, label), model.GetArchivePathPrefixToLabels(repo)) ||
				!strings.HasPrefix(model.GetArchivePathToFinalDiamond(repo, d), model.GetArchivePathPrefixToDiamonds(repo)) ||
				!strings.HasPrefix(model.GetArchivePathToFinalSplit(repo, d, s), model.GetArchivePathPrefixToSplits(repo, d)) ||
				!strings.HasPrefix(model.GetArchivePathToRepoDescriptor(repo), model.GetArchivePathPrefixToRepos()) {
				viol("prefix", "listing-prefix", "a listing prefix is not a prefix of its objects (repo %q)", repo)
			}
			if i == 0 {
				sample = map[string]interface{}{"repo": repo, "label": label, "bundle": b, "split": s, "index": idx,
					"path": model.GetArchivePathToSplitFileList(repo, d, s, g, idx)}
			}
		}
	case "consumable":
		for i := 0; i < p.N; i++ {
			b, idx := kid(r), index(r)
			distinct[fmt.Sprintf("%s/%d", b, idx)] = true
			cls := "index<2^63"
			if idx >= 1<<63 {
				cls = "index>=2^63"
			}
			guard(fmt.Sprintf("GetConsumablePathToBundleFileList(%s,%d)", b, idx), cls, func() {
				pth := model.GetConsumablePathToBundleFileList(b, idx)
				m, err := model.GetConsumableStorePathMetadata(pth)
				if err != nil || m.Type != model.ConsumableStorePathTypeFileList || m.BundleID != b || m.Index != idx {
					viol("consumable-roundtrip", cls, "%q parses to %+v err=%v, built from (%s,%d)", pth, m, err, b, idx)
				}
				if !model.IsGeneratedFile(pth) {
					viol("consumable-not-generated", "filelist", "%q is not recognised as generated", pth)
				}
			})
			guard("GetConsumablePathToBundle("+b+")", "descriptor", func() {
				pth := model.GetConsumablePathToBundle(b)
				m, err := model.GetConsumableStorePathMetadata(pth)
				if err != nil || m.Type != model.ConsumableStorePathTypeDescriptor || m.BundleID != b {
					viol("consumable-roundtrip", "descriptor", "%q parses to %+v err=%v, built from %s", pth, m, err, b)
				}
			})
			if i == 0 {
				sample = map[string]interface{}{"bundle": b, "index": idx}
			}
		}
	case "generated":
		comps := []string{".datamon", ".conflicts", ".checkpoints", ".datamonx", "x.datamon", ".conflicts2", "..conflicts", "..checkpoints", "..datamon",
			"a", "b.txt", ".hidden", "é", "dir with space", ".datamo", "datamon", ".conflict", "-conflicts", ".Datamon"}
		for i := 0; i < p.N; i++ {
			n := 1 + r.Intn(4)
			var parts []string
			for j := 0; j < n; j++ {
				parts = append(parts, comps[r.Intn(len(comps))])
			}
			lead := []string{"", "", "/", "./"}[r.Intn(4)]
			pth := lead + strings.Join(parts, "/")
			if r.Intn(20) == 0 {
				pth += "/"
			}
			distinct[pth] = true
			first := parts[0]
			want := first == ".datamon" || first == ".conflicts" || first == ".checkpoints"
			got := model.IsGeneratedFile(pth)
			if got != want {
				cls := "reserved-not-recognised"
				if got {
					cls = "ordinary-path-taken-as-generated:first-component=" + first
				}
				viol("generated-detection", cls, "IsGeneratedFile(%q) = %v, the first path component is %q", pth, got, first)
			}
			if i == 0 {
				sample = map[string]interface{}{"path": pth, "generated": got}
			}
		}
		// conflict / checkpoint paths produced by the model are generated paths
		for i := 0; i < 50; i++ {
			s, f := kid(r), "a/"+name(r, true)
			for _, pth := range []string{model.GenerateConflictPath(s, f), model.GenerateCheckpointPath(s, f)} {
				if !model.IsGeneratedFile(pth) {
					viol("generated-detection", "conflict-path-not-generated", "IsGeneratedFile(%q) = false", pth)
				}
			}
		}
	case "descriptors":
		types := []interface{}{model.RepoDescriptor{}, model.BundleDescriptor{}, model.BundleEntries{}, model.LabelDescriptor{},
			model.DiamondDescriptor{}, model.SplitDescriptor{}, model.Context{}, model.Entry{}}
		for i := 0; i < p.N; i++ {
			proto := types[i%len(types)]
			tn := reflect.TypeOf(proto).Name()
			v := reflect.New(reflect.TypeOf(proto))
			populate(r, v.Elem(), 0)
			guard("yaml round trip of "+tn, tn, func() {
				var b []byte
				var err error
				back := reflect.New(reflect.TypeOf(proto))
				switch x := v.Interface().(type) {
				case *model.Context:
					b, err = model.MarshalContext(x)
					if err == nil {
						var c *model.Context
						c, err = model.UnmarshalContext(b)
						if c != nil {
							back = reflect.ValueOf(c)
						}
					}
				case *model.Entry:
					b, err = model.MarshalWAL(x)
					if err == nil {
						var e *model.Entry
						e, err = model.UnmarshalWAL(b)
						if e != nil {
							back = reflect.ValueOf(e)
						}
					}
				default:
					b, err = yaml.Marshal(v.Interface())
					if err == nil {
						err = yaml.Unmarshal(b, back.Interface())
					}
				}
				distinct[tn+string(b)] = true
				if err != nil {
					viol("descriptor-roundtrip-error", tn, "%s %+v: %v\n%s", tn, v.Elem().Interface(), err, b)
					return
				}
				normalize(v.Elem())
				normalize(back.Elem())
				if !reflect.DeepEqual(v.Elem().Interface(), back.Elem().Interface()) {
					viol("descriptor-roundtrip", tn, "%s written %+v read back %+v\n%s", tn, v.Elem().Interface(), back.Elem().Interface(), b)
				}
				if i < 8 && sample == nil {
					sample = map[string]interface{}{"type": tn, "yaml": string(b)}
				}
			})
		}
	case "validation":
		for i := 0; i < p.N; i++ {
			var nm string
			valid := r.Intn(2) == 0
			withConn := r.Intn(2) == 0
			if valid {
				nm = name(r, withConn)
			} else {
				nm = hostile[r.Intn(len(hostile))]
				if r.Intn(3) == 0 && nm != "" {
					nm = name(r, false) + nm
				}
			}
			distinct[nm] = true
			// independent classification
			okRepo, okLabel, judged := nm != "", nm != "", true
			for _, ch := range nm {
				switch {
				case unicode.IsLetter(ch) || unicode.IsDigit(ch) || ch == '-':
				case unicode.Is(unicode.Pc, ch):
					okRepo = false
				case unicode.Is(unicode.Hyphen, ch) || unicode.Is(unicode.Pd, ch):
					judged = false // membership in "hyphen" is debatable
				default:
					okRepo, okLabel = false, false
				}
			}
			if !judged {
				continue
			}
			var errR, errL error
			panicked := false
			func() {
				defer func() {
					if x := recover(); x != nil {
						panicked = true
						viol("panic", "validation", "ValidateRepo/ValidateLabel(%q): panic: %v", nm, x)
					}
				}()
				errR = model.ValidateRepo(model.RepoDescriptor{Name: nm, Description: "d"})
				errL = model.ValidateLabel(model.LabelDescriptor{Name: nm, BundleID: "x"})
			}()
			if panicked {
				continue
			}
			if (errR == nil) != okRepo {
				viol("repo-validation", fmt.Sprintf("accepted=%v", errR == nil), "ValidateRepo(%q) = %v, expected accept=%v", nm, errR, okRepo)
			}
			if (errL == nil) != okLabel {
				viol("label-validation", fmt.Sprintf("accepted=%v", errL == nil), "ValidateLabel(%q) = %v, expected accept=%v", nm, errL, okLabel)
			}
			if i == 0 {
				sample = map[string]interface{}{"name": nm, "repo_ok": errR == nil, "label_ok": errL == nil}
			}
		}
	}
	res.Evals = int64(p.N)
	if int64(len(distinct)) > res.Evals {
		res.Evals = int64(len(distinct)) // several paths are built and parsed per sub-case
	}
	res.Distinct = int64(len(distinct))
	res.Canon = c.ID
	res.Stat("subcases_"+p.Kind, int64(p.N))
	if sample != nil {
		res.Sample = map[string]interface{}{"kind": p.Kind, "first": sample}
	}
}

var timeType = reflect.TypeOf(time.Time{})

func populate(r *rand.Rand, v reflect.Value, depth int) {
	switch v.Kind() {
	case reflect.String:
		if v.Type().Name() != "string" && r.Intn(2) == 0 {
			// enumerated string types: mostly their documented values
			vals := []string{"initialized", "done", "canceled", "running", "ignored", "enable-conflicts", "enable-checkpoints", "forbids-conflicts"}
			v.SetString(vals[r.Intn(len(vals))])
			return
		}
		v.SetString(strPool[r.Intn(len(strPool))])
	case reflect.Uint64, reflect.Uint32, reflect.Uint, reflect.Uint8:
		x := r.Uint64() >> uint(r.Intn(64))
		if v.Kind() == reflect.Uint32 {
			x &= 0xffffffff
		}
		if v.Kind() == reflect.Uint8 {
			x &= 0xff
		}
		v.SetUint(x)
	case reflect.Int, reflect.Int64:
		v.SetInt(r.Int63() >> uint(r.Intn(63)))
	case reflect.Bool:
		v.SetBool(r.Intn(2) == 0)
	case reflect.Float64:
		v.SetFloat(float64(r.Intn(1000)) / 8)
	case reflect.Slice:
		n := r.Intn(4)
		if depth > 2 {
			n = 0
		}
		s := reflect.MakeSlice(v.Type(), n, n)
		for i := 0; i < n; i++ {
			populate(r, s.Index(i), depth+1)
		}
		v.Set(s)
	case reflect.Struct:
		if v.Type() == timeType {
			switch r.Intn(6) {
			case 0:
				v.Set(reflect.ValueOf(time.Time{}))
			case 1:
				v.Set(reflect.ValueOf(time.Unix(int64(r.Intn(2000000000)), 0).UTC()))
			case 2:
				v.Set(reflect.ValueOf(time.Unix(int64(r.Intn(2000000000)), int64(r.Intn(1000000000))).In(time.FixedZone("x", 3600*(r.Intn(25)-12)))))
			default:
				v.Set(reflect.ValueOf(time.Unix(int64(r.Intn(2000000000)), int64(r.Intn(1000000000))).UTC()))
			}
			return
		}
		for i := 0; i < v.NumField(); i++ {
			if v.Type().Field(i).PkgPath != "" { // unexported
				continue
			}
			populate(r, v.Field(i), depth+1)
		}
	}
}

// normalize makes semantically equal values deeply equal (times in UTC without monotonic clock, nil slices empty).
func normalize(v reflect.Value) {
	switch v.Kind() {
	case reflect.Slice:
		if v.IsNil() && v.CanSet() {
			v.Set(reflect.MakeSlice(v.Type(), 0, 0))
		}
		for i := 0; i < v.Len(); i++ {
			normalize(v.Index(i))
		}
	case reflect.Struct:
		if v.Type() == timeType {
			if v.CanSet() {
				t := v.Interface().(time.Time)
				if t.IsZero() {
					v.Set(reflect.ValueOf(time.Time{}))
				} else {
					v.Set(reflect.ValueOf(time.Unix(0, t.UnixNano()).UTC()))
				}
			}
			return
		}
		for i := 0; i < v.NumField(); i++ {
			if v.Type().Field(i).PkgPath != "" {
				continue
			}
			normalize(v.Field(i))
		}
	}
}

func TestC20(t *testing.T) {
	drv.Main(t, drv.Driver{ID: "C20", Gen: gen20, Run: run20})
}
