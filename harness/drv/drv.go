// Package drv is the case runner shared by all property drivers.
//
// A driver provides Gen (the case list, a pure function of seed and tier) and Run (execute
// one case against the real code and let the oracle decide). The runner executes the shard
// it is given, one case at a time, logging "start" (flushed) before each case so that the
// orchestrator can attribute a process death to the case in flight.
package drv

import (
	"bufio"
	"encoding/json"
	"fmt"
	"os"
	"runtime/debug"
	"strconv"
	"strings"
	"sync"
	"testing"
	"time"
)

// Case is one generated case.
type Case struct {
	ID     string          `json:"id"`
	Class  string          `json:"class"`
	Params json.RawMessage `json:"params"`
}

// Violation is one oracle failure.
type Violation struct {
	Kind string `json:"kind"` // short violation kind, part of the signature
	Sig  string `json:"sig"`  // structural signature (kind + where/what pattern)
	Msg  string `json:"msg"`  // human readable witness
}

// Result of running one case.
type Result struct {
	Violations []Violation `json:"violations,omitempty"`
	Skipped    string      `json:"skipped,omitempty"` // non-empty: the case could not be judged (reason)
	Nontrivial bool        `json:"nontrivial"`
	// Evals / Distinct: for a case that enumerates a block of sub-cases itself: how many sub-cases
	// it evaluated and how many of them were distinct and non-trivial (counted, not estimated).
	Evals    int64                  `json:"evals,omitempty"`
	Distinct int64                  `json:"distinct,omitempty"`
	Canon    string                 `json:"canon"` // canonical form for de-duplication
	Stats    map[string]int64       `json:"stats,omitempty"`
	Sets     map[string][]string    `json:"sets,omitempty"` // named sets of distinct things observed (unioned by the orchestrator)
	Sample   map[string]interface{} `json:"sample,omitempty"`
	Trace    []string               `json:"trace,omitempty"` // tail of the event log for the replay file
	// Offline holds requests for the property's offline oracle (run by the orchestrator over all cases).
	Offline []interface{} `json:"offline,omitempty"`
}

// Violate appends a violation.
func (r *Result) Violate(kind, sig, format string, a ...interface{}) {
	r.Violations = append(r.Violations, Violation{Kind: kind, Sig: kind + "|" + sig, Msg: fmt.Sprintf(format, a...)})
}

// Stat adds to a counter.
func (r *Result) Stat(k string, n int64) {
	if r.Stats == nil {
		r.Stats = map[string]int64{}
	}
	r.Stats[k] += n
}

// Seen records a distinct thing observed (e.g. an interleaving signature).
func (r *Result) Seen(set, v string) {
	if r.Sets == nil {
		r.Sets = map[string][]string{}
	}
	for _, x := range r.Sets[set] {
		if x == v {
			return
		}
	}
	if len(r.Sets[set]) < 2000 {
		r.Sets[set] = append(r.Sets[set], v)
	}
}

// Driver is what a property provides.
type Driver struct {
	ID  string
	Gen func(seed int64, tier string) []Case
	Run func(c Case, res *Result)
	// CaseTimeout is the generous wall-clock watchdog per case (inconclusive when it fires).
	CaseTimeout time.Duration
}

// Abort can be panicked by hooks/monitors to stop the operation under test from inside.
type Abort struct{ V Violation }

type line struct {
	T      string  `json:"t"`
	Idx    int     `json:"idx"`
	Case   *Case   `json:"case,omitempty"`
	Result *Result `json:"result,omitempty"`
	Msg    string  `json:"msg,omitempty"`
	N      int     `json:"n,omitempty"`
	WallMs int64   `json:"wall_ms,omitempty"`
}

var outMu sync.Mutex

// Main runs the driver according to the environment:
//
//	VERIF_SEED, VERIF_TIER, VERIF_OUT (jsonl path), VERIF_SHARD=i/n, VERIF_START=k (skip cases
//	with global index < k), VERIF_REPLAY=<file holding a Case JSON>, VERIF_LIST=1 (only count).
func Main(t *testing.T, d Driver) {
	seed, _ := strconv.ParseInt(os.Getenv("VERIF_SEED"), 10, 64)
	if os.Getenv("VERIF_SEED") == "" {
		seed = 1
	}
	tier := os.Getenv("VERIF_TIER")
	if tier == "" {
		tier = "quick"
	}
	outPath := os.Getenv("VERIF_OUT")
	var out *bufio.Writer
	var f *os.File
	if outPath != "" {
		var err error
		f, err = os.OpenFile(outPath, os.O_CREATE|os.O_WRONLY|os.O_APPEND, 0o644)
		if err != nil {
			t.Fatal(err)
		}
		defer f.Close()
		out = bufio.NewWriter(f)
	} else {
		out = bufio.NewWriter(os.Stdout)
	}
	emit := func(l line) {
		outMu.Lock()
		defer outMu.Unlock()
		b, err := json.Marshal(l)
		if err != nil {
			b, _ = json.Marshal(line{T: "error", Idx: l.Idx, Msg: "marshal: " + err.Error()})
		}
		out.Write(b)
		out.WriteByte('\n')
		out.Flush()
	}

	var cases []Case
	if rp := os.Getenv("VERIF_REPLAY"); rp != "" {
		b, err := os.ReadFile(rp)
		if err != nil {
			t.Fatal(err)
		}
		var c Case
		if err := json.Unmarshal(b, &c); err != nil {
			// maybe a replay file wrapping the case
			var w struct {
				Case Case `json:"case"`
			}
			if err2 := json.Unmarshal(b, &w); err2 != nil {
				t.Fatal(err)
			}
			c = w.Case
		}
		if c.ID == "" {
			var w struct {
				Case Case `json:"case"`
			}
			_ = json.Unmarshal(b, &w)
			c = w.Case
		}
		cases = []Case{c}
	} else {
		cases = d.Gen(seed, tier)
	}
	if os.Getenv("VERIF_LIST") != "" {
		emit(line{T: "count", N: len(cases)})
		return
	}
	shardI, shardN := 0, 1
	if s := os.Getenv("VERIF_SHARD"); s != "" {
		p := strings.SplitN(s, "/", 2)
		shardI, _ = strconv.Atoi(p[0])
		shardN, _ = strconv.Atoi(p[1])
	}
	start, _ := strconv.Atoi(os.Getenv("VERIF_START"))
	timeout := d.CaseTimeout
	if timeout == 0 {
		timeout = 15 * time.Minute
	}
	// VERIF_MAXCASES=n: leave after n cases (the orchestrator starts a fresh process at the next case), so that memory
	// held by abandoned goroutines of the code under test (e.g. crashed clients, leaked readers) stays bounded
	maxCases, _ := strconv.Atoi(os.Getenv("VERIF_MAXCASES"))
	ran := 0
	for idx := range cases {
		if idx%shardN != shardI || idx < start {
			continue
		}
		if maxCases > 0 && ran >= maxCases {
			emit(line{T: "recycle", Idx: idx})
			out.Flush()
			return
		}
		ran++
		c := cases[idx]
		emit(line{T: "start", Idx: idx, Case: &c})
		t0 := time.Now()
		res := &Result{}
		done := make(chan struct{})
		go func() {
			defer close(done)
			defer func() {
				if r := recover(); r != nil {
					if ab, ok := r.(Abort); ok {
						res.Violations = append(res.Violations, ab.V)
						return
					}
					st := string(debug.Stack())
					res.Violate("panic", panicSig(fmt.Sprint(r), st), "panic: %v\n%s", r, trim(st, 3000))
				}
			}()
			d.Run(c, res)
		}()
		select {
		case <-done:
			emit(line{T: "done", Idx: idx, Result: res, WallMs: time.Since(t0).Milliseconds()})
		case <-time.After(timeout):
			// a case that does not come back cannot be abandoned safely (it may spin): report and exit,
			// the orchestrator restarts after this case. Inconclusive, never a violation.
			emit(line{T: "hang", Idx: idx, Msg: fmt.Sprintf("case watchdog fired after %s", timeout)})
			out.Flush()
			if f != nil {
				f.Sync()
			}
			os.Exit(97)
		}
	}
	emit(line{T: "end", N: len(cases)})
}

func trim(s string, n int) string {
	if len(s) > n {
		return s[:n] + "…"
	}
	return s
}

// panicSig builds a signature from the panic value class and the first datamon frame.
func panicSig(val, stack string) string {
	v := val
	if i := strings.IndexAny(v, "0123456789["); i > 0 {
		v = v[:i]
	}
	v = strings.TrimSpace(v)
	frame := ""
	for _, l := range strings.Split(stack, "\n") {
		l = strings.TrimSpace(l)
		if strings.HasPrefix(l, "github.com/oneconcern/datamon/") {
			if i := strings.LastIndex(l, "("); i > 0 {
				l = l[:i]
			}
			frame = strings.TrimPrefix(l, "github.com/oneconcern/datamon/")
			break
		}
	}
	return v + "@" + frame
}

// MustJSON marshals or panics.
func MustJSON(v interface{}) json.RawMessage {
	b, err := json.Marshal(v)
	if err != nil {
		panic(err)
	}
	return b
}

// Params decodes case parameters.
func Params(c Case, v interface{}) {
	if err := json.Unmarshal(c.Params, v); err != nil {
		panic(fmt.Sprintf("bad case params: %v", err))
	}
}
