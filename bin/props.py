# Per-property configuration of the orchestrator (bin/check).
PROPS = {
    "C01": {
        "pkg": "c01", "level": "exploration",
        "rule": "Case = leaf size x content length x source chunking x reader configuration x read program. Leaf sizes 64, 65, 100, 4 KiB (full cross product of length classes {0, 1, k*leaf-1, k*leaf, k*leaf+1 for k=1..6, random} with ~20 source kinds at leaf 64; sampled at the others), 64 KiB, 1 MiB, 1.5 MiB, 2 MiB, 5 MiB (sampled); sources: one single Write of everything, WriterTo sources issuing fixed/random write sizes (1, 7, leaf-1, leaf, leaf+1, 32 KiB, 3*leaf), plain readers with fixed/random chunks, (n, EOF)-together, iotest One/Half/DataErr readers; prefetch 0..3, cache 1..4 leaves or default, flush concurrency 1..16, memstore (whole or chunked blob readers) or localfs. Every case is read back through sequential Read (6-7 buffer sizes), >= 50 ReadAt incl. at/past EOF, WriteTo to a plain writer and to a WriterAt, interleaved Read/ReadAt, and (class concurrent-readat) 4 goroutines sharing a 1-2 leaf cache. Non-trivial: the Put succeeded and was read back; distinct by the full parameter tuple.",
        "technique": "runtime monitoring: byte-exact comparison of every read against the stored content, Write-loop progress assertion (hook cafs.write.iter), child-death attribution",
        "level_text": "Generated contents are stored through the real cafs with hostile chunkings and configurations and every byte returned by every read style is compared with the original; a hook in the Write loop turns non-termination into a logical violation. Exploration is the right level: the input space is unbounded but the boundaries (leaf multiples, EOF, single writes longer than a leaf) are enumerated systematically.",
        "level_note": "Trusted: memstore (self-checked with porcupine in setup), the SHA-256 counter-mode content generator. io.EOF versus nil at end of data is not judged. Held on the executions produced.",
        "assumptions": ["blob store behaves like GCS (memstore) or is localfs on tmpfs"],
        "vmem_gb": 40,
    },
    "C02": {
        "pkg": "c02", "level": "exploration", "offline": "pyoracle/blake2tree.py",
        "rule": "Case = a sequence of Puts into one shared blob store at one leaf size: (chunkings) the same content stored three times through different source chunkings and flush concurrencies 1..16, for every length class {0,1,63,64,65,k*leaf-1,k*leaf,k*leaf+1 (k=1..6),random} at leaf 64/65/100 (sampled at 4 KiB, 64 KiB, 1-5 MiB); (history) 3..8 Puts of fresh, identical, prefix, last-byte-flipped, zero-extended and leaf-sharing contents, sometimes with an empty blob pre-planted under a key about to be written, with and without store-side CRC. Every returned key of a regenerable content is re-computed by an independent BLAKE2b tree implementation in Python hashlib (anchored: it must reproduce all testdata/roots/* from testdata/original/* at leaf 1.5 MiB, else inconclusive). Non-trivial: all Puts succeeded; distinct by leaf, item list and store configuration.",
        "technique": "runtime monitoring: differential key check against an independent BLAKE2b tree-mode implementation (Python hashlib) plus store-diff and store-log monitors on repeated/overlapping Puts",
        "level_text": "Keys produced by the real writer for hundreds of contents, chunkings and concurrency levels are compared with an independently written tree hash that is itself pinned by the checked-in testdata; store snapshots and the store event log show that duplicates leave existing objects untouched. Differential exploration is the right level for a hash layout over unbounded inputs.",
        "level_note": "Trusted: Python hashlib.blake2b tree parameters, the testdata/roots anchor, memstore. Contents above 2 MiB are sent to the Python oracle only for the first item of a case (cost).",
        "assumptions": ["testdata/roots pins the historical layout", "memstore CRC32C attribute as GCS provides it (or absent with no_crc)"],
    },
    "C03": {
        "pkg": "c03", "level": "fault_enumeration",
        "rule": "Case = (object shape, one corruption of one blob). Objects of 1..6 leaves (exact multiples and partial last leaf) at leaf 64 and 4 KiB inside a 3-file bundle; corruptions of the root blob or of a leaf blob: bit flip (first, last, 3 PRNG positions), truncation (1, len-1, PRNG, a multiple of 64), extend by one byte / by 64 bytes, delete, empty, zero-fill, replace by another leaf of the same object, by a leaf of another object, by another object's valid root blob, swap two leaves. Each corruption is observed through fresh cafs instances: sequential Read (3 buffer sizes), ReadAt (full scan, targeted at the damaged leaf, neighbours, random), WriteTo to a plain writer and to a WriterAt, and core.Publish of the bundle into a local directory (download concurrency 1 and 10). Exhaustive blocks enumerate every bit position / every truncation length of one blob (quick: one leaf and one root blob; thorough: every blob of a 6-leaf and a 1-leaf object). Non-trivial: the stored bytes really changed; distinct by (leaf size, length, corruption).",
        "exhaustive_note": "every bit flip / every truncation length of the blobs named by the exhaustive-* cases (see samples); all other corruptions are sampled",
        "technique": "runtime fault injection into the blob store with an 'error or exact original bytes' oracle over every read style and a full bundle download",
        "level_text": "Every blob of small objects is damaged in every way the property lists (exhaustively for bit flips and truncations of chosen blobs) and the real readers and the real download path are observed: any success that does not return exactly the stored bytes is a violation. Fault enumeration is the right level because the fault space per object is finite and small.",
        "level_note": "Trusted: memstore, the content generator. A sequential Read is judged as one logical read (it must end in an error; bytes handed out before the damaged leaf ended are not judged). When Publish fails the destination is unconstrained.",
        "assumptions": ["hash verification enabled (default)", "fresh cafs instance per observation (no warm caches)"],
    },
    "C20": {
        "pkg": "c20", "level": "exploration",
        "rule": "Five families of seeded sub-cases, run in blocks: (paths) every GetArchivePathTo* builder on valid names (unicode letters/digits/hyphen, connector punctuation for labels, KSUIDs incl. min/max, user-named splits, indices incl. 2^63 and 2^64-1) parsed back with GetArchivePathComponents and entered in a path->identity map; (consumable) GetConsumablePathTo* vs GetConsumableStorePathMetadata; (generated) IsGeneratedFile vs an independent first-component predicate on reserved names and near misses; (descriptors) randomly populated descriptors of 8 types through yaml marshal/unmarshal; (validation) ValidateRepo/ValidateLabel vs the documented alphabets. distinct_nontrivial counts distinct generated paths / names / serialized descriptors.",
        "technique": "runtime monitoring: round-trip and differential oracles (independent predicate, identity map) over seeded boundary-biased inputs",
        "level_text": "Thousands of generated names, identifiers, indices and descriptors are pushed through the real builders/parsers/validators and compared with the inputs and with independent predicates; exploration is the right level for pure functions over unbounded domains.",
        "level_note": "Trusted: the independent generated-path predicate (first component after an optional leading ./ or / is exactly .datamon, .conflicts or .checkpoints) and the alphabet classification via package unicode. Characters whose membership in 'hyphen' is debatable are not judged. Descriptor equality is semantic (times by instant, nil == empty slice).",
        "assumptions": ["bundle/diamond/generation IDs are KSUIDs", "descriptor equality is semantic"],
    },
    "C21": {
        "pkg": "c21", "level": "exploration",
        "rule": "Seeded parameter sets for FUSEParamsToEnvVars / PGParamsToEnvVars (0..4 bundles / 0..3 databases, optional fields present or empty, sleep flag) with values from four classes: ordinary [a-z0-9/_-], printable ASCII, unicode, and alphabet-exhausting values that contain every character from '0' up to a PRNG bound so the chosen separators climb through the letters used as parameter names. Each encoded variable is decoded by a reference decoder written from the documented format and compared with the parameters given. A case is non-trivial when encoding succeeded and was decoded; distinct by its full parameter set.",
        "technique": "runtime monitoring: round-trip oracle with an independent reference decoder over seeded, boundary-biased parameter sets",
        "level_text": "Thousands of generated parameter sets, including the hostile ones that push the separator search into the parameter-name alphabet, are encoded by the real code and decoded by an independent decoder following the documented format; exploration is the right level for a pure function over an unbounded input space.",
        "level_note": "Trusted: the reference decoder (first rune item separator, second key/value separator, items without key/value separator are flags, empty items ignored as the zsh decoder does). Not judged: parameters the encoder has no short name for (pg destination bundle-id file, contributor), separators outside ASCII against the shell decoder.",
        "assumptions": ["reference decoder follows the documented format", "bundle/database names are unique within a set"],
    },
    "C22": {
        "pkg": "c22", "level": "exploration",
        "rule": "Exhaustive blocks: every sequence of up to 4 writes with offsets 0..6 and lengths 1..4 (thorough: also up to 5 writes over offsets 0..5, lengths 1..3; a zero-length family with lengths 0..2), each prefix checked offset by offset against a bitmap; plus PRNG sequences of 2..8 writes over offsets 0..60, lengths 0..20. distinct_nontrivial counts distinct sequences of >= 2 writes (enumerated sequences are distinct by construction; random ones are de-duplicated by their write list).",
        "exhaustive_note": "all write sequences within the bounds stated in rule (the exhaustive blocks all completed)",
        "technique": "runtime monitoring: bitmap reference model checked after every write of exhaustively enumerated and random write sequences",
        "level_text": "Every sequence of up to 4 writes (offsets 0..6, lengths 1..4) is executed against the real tracker and compared offset by offset with a bitmap, plus random longer sequences; exhaustive within those bounds, sampled beyond. That is the right level for a pure data structure with a tiny state space per step.",
        "level_note": "Trusted: the bitmap oracle; the tracker is reached through an export file under build tag verif (trackWrite/getRangeToRead are unexported). Held on the executions produced, not a proof for unbounded offsets.",
        "assumptions": ["the bitmap model is the specification", "trackWrite/getRangeToRead reached through pkg/filetracker/export_verif.go (build tag verif)"],
    },
}

# properties deliberately not claimed, with the reason (none so far: unlisted ones are simply not built yet)
NOT_APPLICABLE = {}
