#!/usr/bin/env python3
"""Independent BLAKE2b tree-mode oracle for datamon's cafs keys (C02, also used by C04).

Layout "datamon has always used" (anchored on the published single-leaf vectors of docs/blake2.md and on keys recorded from the pinned commit): unlimited fan-out tree of depth 2,
inner hash size 64, leaf length = leaf size; the i-th (0-based) *full* leaf is hashed with
node_offset = i+1 and no last-node flag; a trailing partial leaf is hashed with node_offset = i
(its 0-based index) and the last-node flag; the root hashes the concatenated leaf digests with
node_depth = 1, node_offset = 0 and the last-node flag.

Usage: blake2tree.py <requests.jsonl>   (one JSON object per line: {"idx":..,"req":{...}})
Prints one JSON line per violation and a final {"checked": n, "anchored": k}.
"""
import sys, json, hashlib, struct, os


def content(seed, label, n):
    out = bytearray()
    i = 0
    pre = b"verif-content" + label.encode() + b"\x00" + struct.pack(">Q", seed & 0xFFFFFFFFFFFFFFFF)
    while len(out) < n:
        out += hashlib.sha256(pre + struct.pack(">Q", i)).digest()
        i += 1
    return bytes(out[:n])


def leaf_key(data, leaf, index, last):
    return hashlib.blake2b(data, digest_size=64, fanout=0, depth=2, leaf_size=leaf, node_offset=index,
                           node_depth=0, inner_size=64, last_node=last).digest()


def tree(data, leaf):
    """returns (root digest, [leaf digests])"""
    leaves = []
    n = len(data)
    full = n // leaf
    for i in range(full):
        leaves.append(leaf_key(data[i * leaf:(i + 1) * leaf], leaf, i + 1, False))
    if n % leaf:
        leaves.append(leaf_key(data[full * leaf:], leaf, full, True))
    root = hashlib.blake2b(b"".join(leaves), digest_size=64, fanout=0, depth=2, leaf_size=leaf, node_offset=0,
                           node_depth=1, inner_size=64, last_node=True).digest()
    return root, leaves


# Published vectors (s3git / docs/blake2.md in the repository, produced by a different implementation years before
# this code): leaf size 5 MiB.  They are constants here so that the anchor needs nothing generated at test time.
VECTORS = [
    (b"hello s3git\n", 5 * 1024 * 1024,
     "18e622875a89cede0d7019b2c8afecf8928c21eac18ec51e38a8e6b829b82c3ef306dec34227929fa77b1c7c329b3d4e50ed9e72dc4dc885be0932d3f28d7053",
     ["46ddd7b91748c4d253e328a9644d78b3e3a298ebbbab462891502f05e956ef7ec03c8e0978e5160a858cc50ca6b37176248b602d50d0c609abe75b462b6dddcc"]),
    (bytes.fromhex("46ddd7b91748c4d253e328a9644d78b3e3a298ebbbab462891502f05e956ef7ec03c8e0978e5160a858cc50ca6b37176248b602d50d0c609abe75b462b6dddcc"),
     5 * 1024 * 1024,
     "4cba3e9d94f5c2a643ee365487249342e16d8e58cfd53c7b2022b7472b46cd30b08af32db1998a9f93a029bd086e4b1b744af2b46c54fab106beadb3b4cbed78",
     None),
]


# Keys recorded once from the repository's pinned commit (e99a0fb, before any repair), content(7, "gold", n): they pin
# datamon's own node-offset convention for several leaves (full leaf i -> node_offset i+1, trailing partial leaf i ->
# node_offset i with the last-node flag), which differs from s3git's (the 8 MiB example of docs/blake2.md is NOT
# reproduced by datamon, by design of the format).
PINNED = [
    (0, 1024, "2d18ac2c40a0b284ec85146d53ff86bee51d54d3f8611069b278f5ec4bfc335351f058e185f6e08019d986efa7628d73907300de6ccb97442904d54336fb7fe5"),
    (1, 1024, "0fd96dc98cab276a1df146a8aa5c2c27d2a8d4d2182237e20c843309455156ec29960b747b18b9fc304ead4ffc93d46557d6a85385efff5c9c666c655e1bd6ea"),
    (1023, 1024, "8288130a4e2de801fb5bd43b3e32f94d953a066ca3277c0ff8c80a950ce533654be1b05dee070876d849a472c4ce75d372ef55252a83a8cefe664455da05589e"),
    (1024, 1024, "cf75e19ecc74c57b08aba2a6e77937040eee73cc1ca81a3833ea2ae5ac1de12813c41a24a2268ea635300018ff006c9a59dcd0f1f5d5bcba66e7a7fb781ee759"),
    (196608, 65536, "08c3a82554ea21722eb541266c245f25bdef15e403fbc39df95a118e4c144a7850bfd310ea182967d8ce86684821b656a947c7f3e07ffe76a69ca14412975a3d"),
    (196615, 65536, "40867db0c62e2981625497dc69b254c4303eb7503d23517402025fd817a1d1f0a27a30474f50f7e68f09fff81d94eda37318232febcb8925c6e977f0e2e29698"),
    (3145828, 1572864, "a2a94d3d1dc0502e6847438011a1ae84c40ecc1199f0eaf4ef03cf3b8c37498aaee73ca625e3e451d1d2b7f3734f4e94b995f383abb0aa732accbbb7e99e0835"),
    (65536, 65536, "4ad659e12f50c2370857233e52bbdc92f47510b143a5da0d5405cdb3bdeceacbf23edbc3e4de050dfb8187043776a3aef1275ab508f61875300e5e9e71cc2e09"),
    (65537, 65536, "1f1499f08f2cda36eaf839e60648bbe11282e6e94ac6d9c6f8a4cd70a5b49337070a454f66e408890cb89ea38d74527155f2169a4c102d59e8763589e85e8923"),
    (131072, 65536, "98dc46967bb18ba13c4333116dd00b298e34ee814fb12fe91aac73a8e0b00cb7283ebef40bd3ecab4b9c518f8304c7bdee03575d0e4959400f2f766989903d23"),
    (5242883, 2097152, "f3644f9074d88ff50ed9e0991dd6d9e53492f27fbf96358a2ff16c445e4873e5037f06f01ffac2b30babeddb912fba1784805fad67252d6525f7b8223a4545cb"),
    (8388608, 2097152, "fe096be9442840572ed7a093a0c84d890d1e172d193f7c26da8fba80aa1f8fe047285af8d79e0051d45eb0c84c6dc3b5ddd1c678742e16b305181a8a1d7c1484"),
]


def anchor(repo):
    """the oracle must reproduce the published root and leaf keys, otherwise nothing it says is believed;
    when the repository's test run has left testdata/roots behind, those are reproduced as well (extra, not required)"""
    k = 0
    for data, leaf, want_root, want_leaves in VECTORS:
        root, leaves = tree(data, leaf)
        if root.hex() != want_root:
            return -1, "oracle does not reproduce the published root key %s…" % want_root[:16]
        if want_leaves is not None and [l.hex() for l in leaves] != want_leaves:
            return -1, "oracle does not reproduce the published leaf keys of %s…" % want_root[:16]
        k += 1
    for n, leaf, want in PINNED:
        root, _ = tree(content(7, "gold", n), leaf)
        if root.hex() != want:
            return -1, "oracle does not reproduce the key the pinned commit gave for len=%d leaf=%d" % (n, leaf)
        k += 1
    orig = os.path.join(repo, "testdata", "original")
    roots = os.path.join(repo, "testdata", "roots")
    if os.path.isdir(orig) and os.path.isdir(roots):
        for name in sorted(os.listdir(orig)):
            rp = os.path.join(roots, name)
            if not os.path.exists(rp):
                continue
            got, _ = tree(open(os.path.join(orig, name), "rb").read(), 1572864)
            if got.hex() != open(rp).read().strip():
                return -1, "oracle does not reproduce testdata/roots/%s" % name
    return k, ""


def main():
    reqs = [json.loads(l) for l in open(sys.argv[1]) if l.strip()]
    repo = os.environ.get("VERIF_REPO", "/repo")
    k, why = anchor(repo)
    if k < len(VECTORS) + len(PINNED):
        print(json.dumps({"inconclusive": why or "published vectors not reproduced"}))
        return
    checked = 0
    for r in reqs:
        q = r["req"]
        data = content(q["seed"], q["label"], q["len"])
        root, leaves = tree(data, q["leaf"])
        checked += 1
        if root.hex() != q["key"]:
            print(json.dumps({"idx": r["idx"], "kind": "key-differs-from-independent-blake2-tree", "sig": q.get("class", ""),
                              "msg": "len=%d leaf=%d source=%s: cafs returned key %s…, the independent BLAKE2b tree root is %s…"
                                     % (q["len"], q["leaf"], q.get("source"), q["key"][:24], root.hex()[:24])}))
            continue
        if "leaf_keys" in q and q["leaf_keys"] != b"".join(leaves).hex():
            print(json.dumps({"idx": r["idx"], "kind": "leaf-keys-differ-from-independent-blake2-tree", "sig": q.get("class", ""),
                              "msg": "len=%d leaf=%d: leaf key list differs from the independent computation" % (q["len"], q["leaf"])}))
    print(json.dumps({"checked": checked, "anchored": k}))


if __name__ == "__main__":
    main()
