#!/usr/bin/env python3
"""Independent BLAKE2b tree-mode oracle for datamon's cafs keys (C02, also used by C04).

Layout "datamon has always used" (pinned by testdata/roots): unlimited fan-out tree of depth 2,
inner hash size 64, leaf length = leaf size; the i-th (0-based) *full* leaf is hashed with
node_offset = i+1 and no last-node flag; a trailing partial leaf is hashed with node_offset = i
(its 0-based index) and the last-node flag; the root hashes the concatenated leaf digests with
node_depth = 1, node_offset = 0 and the last-node flag.

Usage: blake2tree.py <requests.jsonl>   (one JSON object per line: {"idx":..,"req":{...}})
Prints one JSON line per violation and a final {"checked": n, "anchored": k}.
"""
import sys, json, hashlib, struct, os


def content(seed, label, n):
    out = bytearray()
    i = 0
    pre = b"verif-content" + label.encode() + b"\x00" + struct.pack(">Q", seed & 0xFFFFFFFFFFFFFFFF)
    while len(out) < n:
        out += hashlib.sha256(pre + struct.pack(">Q", i)).digest()
        i += 1
    return bytes(out[:n])


def leaf_key(data, leaf, index, last):
    return hashlib.blake2b(data, digest_size=64, fanout=0, depth=2, leaf_size=leaf, node_offset=index,
                           node_depth=0, inner_size=64, last_node=last).digest()


def tree(data, leaf):
    """returns (root digest, [leaf digests])"""
    leaves = []
    n = len(data)
    full = n // leaf
    for i in range(full):
        leaves.append(leaf_key(data[i * leaf:(i + 1) * leaf], leaf, i + 1, False))
    if n % leaf:
        leaves.append(leaf_key(data[full * leaf:], leaf, full, True))
    root = hashlib.blake2b(b"".join(leaves), digest_size=64, fanout=0, depth=2, leaf_size=leaf, node_offset=0,
                           node_depth=1, inner_size=64, last_node=True).digest()
    return root, leaves


def anchor(repo):
    """the oracle must reproduce the checked-in root keys, otherwise nothing it says is believed"""
    orig = os.path.join(repo, "testdata", "original")
    roots = os.path.join(repo, "testdata", "roots")
    k = 0
    for name in sorted(os.listdir(orig)):
        rp = os.path.join(roots, name)
        if not os.path.exists(rp):
            continue
        want = open(rp).read().strip()
        got, _ = tree(open(os.path.join(orig, name), "rb").read(), 1572864)
        if got.hex() != want:
            return -1, "oracle does not reproduce testdata/roots/%s" % name
        k += 1
    return k, ""


def main():
    reqs = [json.loads(l) for l in open(sys.argv[1]) if l.strip()]
    repo = os.environ.get("VERIF_REPO", "/repo")
    k, why = anchor(repo)
    if k < 5:
        print(json.dumps({"inconclusive": why or "fewer than 5 anchor files found under testdata"}))
        return
    checked = 0
    for r in reqs:
        q = r["req"]
        data = content(q["seed"], q["label"], q["len"])
        root, leaves = tree(data, q["leaf"])
        checked += 1
        if root.hex() != q["key"]:
            print(json.dumps({"idx": r["idx"], "kind": "key-differs-from-independent-blake2-tree", "sig": q.get("class", ""),
                              "msg": "len=%d leaf=%d source=%s: cafs returned key %s…, the independent BLAKE2b tree root is %s…"
                                     % (q["len"], q["leaf"], q.get("source"), q["key"][:24], root.hex()[:24])}))
            continue
        if "leaf_keys" in q and q["leaf_keys"] != b"".join(leaves).hex():
            print(json.dumps({"idx": r["idx"], "kind": "leaf-keys-differ-from-independent-blake2-tree", "sig": q.get("class", ""),
                              "msg": "len=%d leaf=%d: leaf key list differs from the independent computation" % (q["len"], q["leaf"])}))
    print(json.dumps({"checked": checked, "anchored": k}))


if __name__ == "__main__":
    main()
